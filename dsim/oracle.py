"""Oracle helpers shared by several properties (all work from the INPUT spec/descriptors)."""
import copy

from . import values


def request_valuation(op):
    """The valuation the caller expressed, whatever the calling form."""
    form = op.get("form", "dict")
    if form in ("dict", "msg", "both"):
        return copy.deepcopy(op.get("request") or {})
    if form == "none":
        return {}
    if form == "kwargs":
        val = {}
        for param, spec in (op.get("kwargs") or {}).items():
            values.set_path(val, spec["path"], copy.deepcopy(spec["value"]))
        return val
    raise AssertionError(form)


def expected_request(codec, m, op):
    return values.to_dynamic(codec, m["input"], request_valuation(op))


def all_ops(scenario):
    out = {}

    def reg(op):
        out[op["id"]] = op
        if op.get("nested"):
            reg(op["nested"]["op"])
    for a in scenario["actors"]:
        for op in a["ops"]:
            reg(op)
    return out


def events_by_op(history, ops):
    by = {}
    for e in history:
        if e.get("op") in ops:
            by.setdefault(e["op"], []).append(e)
    return by
