"""setup_cmd: verifies the framework runs offline from files on disk and is deterministic:
same seeds twice in this process, and once more in a fresh interpreter under another
PYTHONHASHSEED, must give identical run digests (DESIGN.md section 2.6)."""
import json
import os
import subprocess
import sys

from . import driver, rng as R

VERIF = os.path.dirname(os.path.dirname(os.path.abspath(__file__)))


def main(argv):
    seeds = [R.derive(7, "selftest", i) for i in range(8)]
    a = driver.digests_for("C09", seeds, 30)
    b = driver.digests_for("C09", seeds, 30)
    env = dict(os.environ)
    env["PYTHONHASHSEED"] = "4242"
    env["VERIF_WORKERS"] = "3"
    p = subprocess.run([sys.executable, os.path.join(VERIF, "check.py"), "C09", "--digests",
                        ",".join(map(str, seeds)), "--runs", "30"], env=env, capture_output=True, text=True,
                       timeout=600, cwd=VERIF)
    c = {}
    for line in p.stdout.splitlines():
        if line.startswith("DIGESTS "):
            c = json.loads(line[8:])
    bad = [s for s in a if not (a[s] == b.get(s) == c.get(s)) or len(a[s]) != 64]
    if bad:
        print("SELFTEST FAILED: NONDETERMINISM or harness error", {s: (a[s], b.get(s), c.get(s)) for s in bad[:2]})
        print(p.stderr[-2000:])
        return 2
    print(f"SELFTEST OK: {len(seeds)} world seeds x 30 runs, digests equal across two in-process runs and a "
          f"fresh interpreter with PYTHONHASHSEED=4242")
    return 0
