"""Virtual-time asyncio event loop.

* time() is the simulated clock (shared with simclock.CLOCK);
* when nothing is ready the clock jumps to the earliest live timer, so a 20 s retry deadline or a
  15 min polling budget costs microseconds;
* the ready queue stays FIFO exactly as asyncio documents it: interleavings come from the
  simulator-chosen latency of every message, never from reordering call_soon callbacks (that
  would manufacture schedules asyncio cannot produce);
* no real I/O is ever awaited: an empty ready queue with no timers is a deadlock and is reported
  as such instead of blocking in select().
"""
import asyncio
import heapq

from .simclock import CLOCK


class SimDeadlock(RuntimeError):
    pass


class SimLoop(asyncio.SelectorEventLoop):
    def __init__(self):
        super().__init__()
        self.steps = 0
        self.max_steps = 2_000_000
        self._clock_resolution = 1e-6

    def time(self):
        return CLOCK.now

    def _run_once(self):
        self.steps += 1
        if self.steps > self.max_steps:
            raise SimDeadlock("step cap reached")
        if not self._ready:
            while self._scheduled and self._scheduled[0]._cancelled:
                h = heapq.heappop(self._scheduled)
                h._scheduled = False
                self._timer_cancelled_count = max(0, self._timer_cancelled_count - 1)
            if self._scheduled:
                when = self._scheduled[0]._when
                if when > CLOCK.now:
                    CLOCK.now = when
            elif not self._stopping:
                raise SimDeadlock("no runnable task and no timer: the simulated system is stuck")
        super()._run_once()


def run(coro_fn, *args):
    """Run ``coro_fn(*args)`` to completion on a fresh SimLoop; returns its result."""
    loop = SimLoop()
    asyncio.set_event_loop(loop)
    try:
        main = loop.create_task(coro_fn(*args), name="sim-main")
        return loop.run_until_complete(main)
    finally:
        try:
            pending = [t for t in asyncio.all_tasks(loop) if not t.done()]
            for t in pending:
                t.cancel()
            if pending:
                loop.run_until_complete(asyncio.gather(*pending, return_exceptions=True))
        except Exception:  # noqa
            pass
        asyncio.set_event_loop(None)
        loop.close()
