"""Hand-written ApiSpecs used by the self-tests and as documentation of the spec format."""

PKG = "acme.widgets.v1"


def widget_spec(transport="grpc+rest"):
    P = "." + PKG
    return {
        "package": PKG,
        "files": [{
            "name": "acme/widgets/v1/widgets.proto",
            "package": PKG,
            "messages": [
                {"name": "Widget",
                 "resource": {"type": "widgets.acme.com/Widget",
                              "patterns": ["projects/{project}/widgets/{widget}"]},
                 "fields": [
                     {"name": "name", "number": 1, "type": "string"},
                     {"name": "size", "number": 2, "type": "int32"},
                     {"name": "tags", "number": 3, "type": "string", "repeated": True},
                 ]},
                {"name": "GetWidgetRequest", "fields": [
                    {"name": "name", "number": 1, "type": "string", "required": True,
                     "resource_ref": "widgets.acme.com/Widget"}]},
                {"name": "ListWidgetsRequest", "fields": [
                    {"name": "parent", "number": 1, "type": "string"},
                    {"name": "page_size", "number": 2, "type": "int32"},
                    {"name": "page_token", "number": 3, "type": "string"},
                    {"name": "filter", "number": 4, "type": "string"}]},
                {"name": "ListWidgetsResponse", "fields": [
                    {"name": "widgets", "number": 1, "type": "message", "type_name": P + ".Widget",
                     "repeated": True},
                    {"name": "next_page_token", "number": 2, "type": "string"},
                    {"name": "total_size", "number": 3, "type": "int32"}]},
                {"name": "CreateWidgetRequest", "fields": [
                    {"name": "parent", "number": 1, "type": "string"},
                    {"name": "widget", "number": 2, "type": "message", "type_name": P + ".Widget"},
                    {"name": "request_id", "number": 3, "type": "string", "uuid4": True}]},
                {"name": "CreateWidgetMetadata", "fields": [
                    {"name": "progress", "number": 1, "type": "int32"}]},
            ],
            "services": [{
                "name": "WidgetService", "host": "widgets.acme.com",
                "methods": [
                    {"name": "GetWidget", "input": P + ".GetWidgetRequest", "output": P + ".Widget",
                     "http": {"verb": "get", "path": "/v1/{name=projects/*/widgets/*}"},
                     "signatures": ["name"]},
                    {"name": "ListWidgets", "input": P + ".ListWidgetsRequest",
                     "output": P + ".ListWidgetsResponse",
                     "http": {"verb": "get", "path": "/v1/{parent=projects/*}/widgets"},
                     "signatures": ["parent"]},
                    {"name": "CreateWidget", "input": P + ".CreateWidgetRequest",
                     "output": ".google.longrunning.Operation",
                     "http": {"verb": "post", "path": "/v1/{parent=projects/*}/widgets", "body": "widget"},
                     "lro": {"response_type": "Widget", "metadata_type": "CreateWidgetMetadata"},
                     "signatures": ["parent,widget"]},
                    {"name": "DeleteWidget", "input": P + ".GetWidgetRequest",
                     "output": ".google.protobuf.Empty",
                     "http": {"verb": "delete", "path": "/v1/{name=projects/*/widgets/*}"}},
                    {"name": "WatchWidgets", "input": P + ".ListWidgetsRequest", "output": P + ".Widget",
                     "server_streaming": True,
                     "http": {"verb": "get", "path": "/v1/{parent=projects/*}/widgets:watch"}},
                    {"name": "Chat", "input": P + ".Widget", "output": P + ".Widget",
                     "client_streaming": True, "server_streaming": True},
                    {"name": "PokeWidget", "input": P + ".GetWidgetRequest", "output": P + ".Widget",
                     "http": {"verb": "post", "path": "/v1/{name=projects/*/widgets/*}:poke", "body": "*"}},
                ]}],
        }],
        "service_config": {"methodConfig": [
            {"name": [{"service": PKG + ".WidgetService", "method": "GetWidget"},
                      {"service": PKG + ".WidgetService", "method": "ListWidgets"}],
             "timeout": "20s",
             "retryPolicy": {"maxAttempts": 5, "initialBackoff": "0.5s", "maxBackoff": "4s",
                             "backoffMultiplier": 2,
                             "retryableStatusCodes": ["UNAVAILABLE", "DEADLINE_EXCEEDED"]}},
            {"name": [{"service": PKG + ".WidgetService", "method": "CreateWidget"}],
             "timeout": "7.5s"},
        ]},
        "service_yaml": {
            "type": "google.api.Service", "config_version": 3, "name": "widgets.acme.com",
            "apis": [{"name": "google.longrunning.Operations"}],
            "http": {"rules": [{"selector": "google.longrunning.Operations.GetOperation",
                                "get": "/v1/{name=projects/*/operations/*}"}]},
            "publishing": {"method_settings": [
                {"selector": PKG + ".WidgetService.CreateWidget",
                 "auto_populated_fields": ["request_id"]}]},
        },
        "options": {"transport": transport, "autogen-snippets": False},
    }
