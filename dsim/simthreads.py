"""Deterministic scheduling of REAL caller threads that share one emitted (sync) client.

Every actor of a threaded scenario runs in its own ``threading.Thread``; exactly one of them runs at
any moment (baton passing).  A thread gives the baton back only at the seams the simulator owns -
whenever simulated time has to pass for it: a reply travelling on the SimChannel / SimHTTPAdapter
(``CLOCK.advance``), ``time.sleep`` of a retry or polling loop (``CLOCK.sleep``), and zero-length
waits, which are pure yield points.  The scheduler then resumes the parked thread with the smallest
wake-up time; ties are decided by a PRNG seeded from the scenario (``sched_seed``), so one scenario
is one interleaving, exactly repeatable.  That explores every order in which calls of different threads
can overlap at I/O, which is where a client that keeps per-call state on shared objects (client,
transport, wrapped method, class) across a call goes wrong.

Pre-emption BETWEEN seams (optional, ``preempt_prefix``): the actor threads run under ``sys.settrace``;
every *line* event inside a file of the EMITTED library (and only there: library and harness frames
are not traced line by line) is a possible pre-emption point, taken with probability ``preempt_p``
drawn from the same scenario PRNG.  This reaches state that is written and read back within one
call, before anything is sent (two threads inside the same stub method).
"""
import contextvars
import random
import sys
import threading

from .simclock import CLOCK

WAIT_S = 120.0       # real-time guard: a parked thread or the scheduler never waits longer (harness error)


class HarnessStall(Exception):
    pass


class _Abort(BaseException):
    """Unwinds a parked actor thread after another actor ended the run with an exception."""


class SimLock:
    """Cooperative stand-in for threading.Lock while caller threads are scheduled by baton passing: a thread that finds
    the lock taken gives the baton back (a real lock held by a PARKED thread would block the whole simulation).
    Exactly one thread runs at a time, so test-and-set needs no atomicity of its own."""

    def __init__(self, sched):
        self._sched = sched
        self._locked = False

    def acquire(self, blocking=True, timeout=-1):
        while self._locked:
            if not blocking:
                return False
            if self._sched.aborted:
                raise _Abort()
            if self._sched.current() is None:
                raise RuntimeError("simulated lock contended outside the scheduled caller threads")
            self._sched.lock_waits += 1
            self._sched.wait_for(self)          # parked until some thread releases this lock (no spinning: the holder
        self._locked = True                     # may itself be asleep until a later simulated instant)
        return True

    def release(self):
        if not self._locked:
            raise RuntimeError("release unlocked lock")
        self._locked = False
        self._sched.released(self)

    def locked(self):
        return self._locked

    __enter__ = acquire

    def __exit__(self, *a):
        self.release()


class SimRLock(SimLock):
    def __init__(self, sched):
        super().__init__(sched)
        self._owner = None
        self._count = 0

    def acquire(self, blocking=True, timeout=-1):
        me = threading.get_ident()
        if self._owner == me:
            self._count += 1
            return True
        if not SimLock.acquire(self, blocking, timeout):
            return False
        self._owner, self._count = me, 1
        return True

    def release(self):
        if self._owner != threading.get_ident():
            raise RuntimeError("cannot release un-acquired lock")
        self._count -= 1
        if self._count == 0:
            self._owner = None
            SimLock.release(self)

    __enter__ = acquire

    # what threading.Condition asks of an RLock
    def _is_owned(self):
        return self._owner == threading.get_ident()

    def _release_save(self):
        st = (self._count, self._owner)
        self._count, self._owner = 0, None
        SimLock.release(self)
        return st

    def _acquire_restore(self, st):
        SimLock.acquire(self)
        self._count, self._owner = st


class _Actor:
    def __init__(self, idx, fn):
        self.idx = idx
        self.fn = fn
        self.wake = 0.0
        self.state = "new"          # new | parked | lockwait | running | done
        self.waiting_on = None
        self.go = threading.Event()
        self.exc = None
        self.thread = None


class ThreadSched:
    def __init__(self, seed, preempt_prefix=None, preempt_p=0.0):
        self.rng = random.Random(seed)
        self.prefix = preempt_prefix
        self.p = preempt_p
        self.preemptions = 0
        self.actors = []
        self.main = threading.Event()
        self.switches = 0
        self.lock_waits = 0
        self.aborted = False
        self._tls = threading.local()

    def cooperative_locks(self, emitted_prefix):
        """Context manager: a lock created DIRECTLY BY EMITTED CODE (a file under `emitted_prefix`: clients / transports
        constructed for this run, or emitted methods while the threads run) is a SimLock.  Everything else - the
        libraries' and the harness's own locks, events and conditions - stays real."""
        sched = self

        class _Ctx:
            def __enter__(self):
                real_lock, real_rlock = threading.Lock, threading.RLock
                self.real = (real_lock, real_rlock)

                def lock():
                    return SimLock(sched) if sys._getframe(1).f_code.co_filename.startswith(emitted_prefix) else real_lock()

                def rlock():
                    return SimRLock(sched) if sys._getframe(1).f_code.co_filename.startswith(emitted_prefix) else real_rlock()
                threading.Lock, threading.RLock = lock, rlock

            def __exit__(self, *a):
                threading.Lock, threading.RLock = self.real
        return _Ctx()

    # ------------------------------------------------------------------ thread side
    def current(self):
        return getattr(self._tls, "actor", None)

    def wait(self, d):
        """Called (through CLOCK) by the running actor thread: park until simulated time now+d."""
        me = self.current()
        if me is None:
            CLOCK.now += d          # not an actor thread (harness code): plain virtual time
            return
        me.wake = CLOCK.now + d
        me.state = "parked"
        self.main.set()
        if not me.go.wait(WAIT_S):
            raise HarnessStall(f"actor {me.idx} was never resumed")
        me.go.clear()
        if self.aborted:
            raise _Abort()

    def wait_for(self, lock):
        me = self.current()
        me.waiting_on = lock
        me.state = "lockwait"
        self.main.set()
        if not me.go.wait(WAIT_S):
            raise HarnessStall(f"actor {me.idx} was never resumed")
        me.go.clear()
        if self.aborted:
            raise _Abort()

    def released(self, lock):
        for a in self.actors:
            if a.state == "lockwait" and a.waiting_on is lock:
                a.waiting_on = None
                a.wake = CLOCK.now
                a.state = "parked"

    def _body(self, a):
        self._tls.actor = a
        if not a.go.wait(WAIT_S) or self.aborted:
            return
        a.go.clear()
        try:
            if self.prefix and self.p > 0:
                sys.settrace(self._trace_call)
            a.fn()
        except _Abort:
            pass
        except BaseException as e:  # noqa  (re-raised in the scheduler thread)
            a.exc = e
        finally:
            sys.settrace(None)
            a.state = "done"
            self.main.set()

    def _trace_call(self, frame, event, arg):
        if event == "call" and frame.f_code.co_filename.startswith(self.prefix):
            return self._trace_line
        return None

    def _trace_line(self, frame, event, arg):
        if event == "line" and self.rng.random() < self.p:
            self.preemptions += 1
            self.wait(0.0)          # give the baton back here, between two lines of emitted code
        return self._trace_line

    # ------------------------------------------------------------------ scheduler side
    def run(self, fns, starts):
        for i, fn in enumerate(fns):
            a = _Actor(i, fn)
            a.wake = CLOCK.now + starts[i]
            a.state = "parked"
            # each thread gets a COPY of the current context (contextvars do not flow into threads)
            ctx = contextvars.copy_context()
            a.thread = threading.Thread(target=ctx.run, args=(self._body, a), name=f"actor-{i}", daemon=True)
            self.actors.append(a)
            a.thread.start()
        CLOCK.sched = self
        try:
            while True:
                parked = [a for a in self.actors if a.state == "parked"]
                if not parked:
                    if any(a.state == "lockwait" for a in self.actors):
                        raise HarnessStall("every remaining caller thread waits for a lock that nobody will release (deadlock)")
                    break
                tmin = min(a.wake for a in parked)
                ready = [a for a in parked if a.wake <= tmin + 1e-12]
                a = ready[0] if len(ready) == 1 else self.rng.choice(ready)
                if a.wake > CLOCK.now:
                    CLOCK.now = a.wake
                a.state = "running"
                self.switches += 1
                self.main.clear()
                a.go.set()
                if not self.main.wait(WAIT_S):
                    raise HarnessStall(f"actor {a.idx} did not reach a seam within {WAIT_S}s of real time")
                if a.exc is not None:
                    raise a.exc
        finally:
            CLOCK.sched = None
            self.aborted = True
            for a in self.actors:
                if a.state != "done":
                    a.go.set()
            for a in self.actors:
                a.thread.join(5.0)
