"""C10 - generation is a pure, deterministic function of the request.

The "schedule" simulated here is the ambient nondeterminism a build farm presents.  For every
request (an order-stress API spec lowered to CodeGeneratorRequest bytes + option files) the seeded
launcher runs the REAL CLI entry point as separate interpreter processes, each under a different
draw of: PYTHONHASHSEED, working directory (relative vs absolute option-file paths), request on
stdin vs --request, TZ / LANG / HOME / umask / unrelated environment noise, a fake wall clock that
also counts reads, and process reuse (one interpreter generates A, then B, then A again).
Oracle: all responses for one request are byte-identical; the clock-read counter is 0.
"""
import argparse
import difflib
import hashlib
import json
import os
import shutil
import subprocess
import sys
import tempfile
import time

from google.protobuf.compiler import plugin_pb2

from . import rng as R
from . import grammar, protos, world, findings

ID = "C10"
VERIF = os.path.dirname(os.path.dirname(os.path.abspath(__file__)))
GENCLI = os.path.join(VERIF, "dsim", "gencli.py")

PROFILE = grammar.profile(
    p_equal_sort_keys=0.5, mixin_variants=True, p_yaml=0.85, resources=(2, 4), p_two_services=0.8, p_second_file=0.7,
    p_lro=0.6, lro_variants=True, p_raw_op=0.4, paged_variants=False, p_list=0.8, p_sstream=0.3, p_cstream=0.2, p_bidi=0.2,
    p_service_config=1.0, p_routing=0.3, p_foreign_request=0.3, p_reserved_field=0.2, p_keyword_rpc=0.15,
    p_auto_populate=0.3, p_multi_var_path=0.3, sig_variants=True, p_additional_binding=0.5,
    common_file_names=["resources", "common", "operation", "policy", "<noun>"], p_same_method_two_services=0.9, p_nested_name_ties=0.6,
    p_double_star_path=0.2, p_reserved_path_var=0.3, p_required_enum=0.3, p_local_empty=0.2,
    transports=["grpc", "grpc+rest", "grpc+rest", "rest"],
    # the shapes of the bug-hunt sessions (post-pass: every other choice of a request stays what it was)
    p_empty_routing=0.2, p_routing_shorthand=0.2, p_keyword_update_field=0.2, p_struct_fields=0.2, p_mixin_mixed_body=0.2,
    p_mistyped_max_results=0.2, p_streamed_list=0.2, p_nested_lro_types=0.2, p_mixin_in_service_config=0.2, p_cstream_of_empty=0.2)

BUDGET = {"quick": {"requests": 14, "envs": 8, "wall_cap": 420},
          "thorough": {"requests": 300, "envs": 16, "wall_cap": 3000}}


def gen_request_spec(rng):
    if rng.random() < 0.2:
        spec = grammar.gen_extended_ops_api(rng)
        spec["options"]["autogen-snippets"] = rng.random() < 0.5
        spec["comments"] = True
        return spec
    spec = grammar.gen_api(rng, PROFILE)
    spec["comments"] = True          # documented protos: source_code_info reaches docstrings, so it is part of the bytes
    if rng.random() < 0.25:
        # sibling SUB-PACKAGES of the API package (the Google Ads layout: .common / .enums / .resources).  The emitted tree of
        # such an API is not importable on the pinned commit (C01, not claimed), but its BYTES must still be a function of
        # the request
        f0 = spec["files"][0]
        d = os.path.dirname(f0["name"])
        for sub in rng.sample(["common", "enums", "resources", "errors"], rng.randint(2, 4)):
            spec["files"].insert(0, {"name": f"{d}/{sub}/{sub}_types.proto", "package": f0["package"] + "." + sub,
                                     "messages": [{"name": sub.capitalize() + "Info", "fields": [{"name": "text", "number": 1, "type": "string"}]}],
                                     "enums": [{"name": sub.capitalize() + "Kind", "values": [["KIND_UNSPECIFIED", 0], ["KIND_A", 1]]}]})
    o = spec["options"]
    o["autogen-snippets"] = rng.random() < 0.7
    if rng.random() < 0.6:
        o["metadata"] = True
    if o.get("add-iam-methods"):
        o.pop("add-iam-methods")
    svcs = [s for f in spec["files"] for s in f.get("services", ())]
    if svcs and rng.random() < 0.3:
        # more services in the same file (each re-exposes one plain unary RPC of the first one)
        import copy
        home = next(f for f in spec["files"] if f.get("services"))
        plain = [m for m in svcs[0]["methods"] if not m.get("client_streaming") and not m.get("server_streaming") and m.get("lro") is None
                 and m["output"] != ".google.longrunning.Operation"]
        for k in range(rng.randint(1, 3)):
            if plain:
                m = copy.deepcopy(rng.choice(plain))
                m.pop("routing", None)
                home["services"].append({"name": f"Aux{'ABC'[k]}Service", "host": svcs[0].get("host"), "methods": [m]})
        svcs = [s for f in spec["files"] for s in f.get("services", ())]
    if len(svcs) >= 2 and rng.random() < 0.5:
        # several services on DIFFERENT default hosts, possibly one without any (sample / snippet names derive from hosts)
        for k, s in enumerate(svcs):
            s["host"] = f"{s['name'].lower()[:8]}{k}.example.com"
        if rng.random() < 0.6:
            rng.choice(svcs).pop("host", None)
    if rng.random() < 0.4:
        # file-level resource definitions (no message of their own), referenced from a request field
        f0 = spec["files"][0]
        f0.setdefault("resource_definitions", []).append({"type": "example.com/Shelf", "patterns": [rng.choice(["shelves/{shelf}", "projects/{project}/shelves/{shelf}"])]})
        for f in spec["files"]:
            for mm in f.get("messages", ()):
                if mm["name"].startswith("Get") and mm["fields"] and "resource_ref" in mm["fields"][0]:
                    mm["fields"].append({"name": "shelf", "number": 15, "type": "string", "resource_ref": "example.com/Shelf"})
                    break
    # the less travelled plugin options (each changes which templates / branches render)
    if rng.random() < 0.2:
        o["lazy-import"] = True
    if rng.random() < 0.15:
        o["warehouse-package-name"] = "acme-" + spec["package"].split(".")[-2] + "-client"
    if rng.random() < 0.1:
        o["proto-plus-deps"] = "google.cloud.location+google.iam.v1" if rng.random() < 0.5 else "google.type"
    if "rest" in o.get("transport", "") and rng.random() < 0.4:
        o["rest-numeric-enums"] = True
    if rng.random() < 0.3:
        # a handwritten sample config (the `samples=` plugin option) for one plain unary RPC
        cands = [(fs, s, m) for fs, s, m in grammar.all_methods(spec)
                 if m["name"].startswith("Get") and not m.get("client_streaming") and not m.get("server_streaming")]
        if cands:
            fs, s, m = rng.choice(cands)
            spec["sample_config"] = ("---\ntype: com.google.api.codegen.samplegen.v1p2.SampleConfigProto\nschema_version: 1.2.0\nsamples:\n"
                                     f"- id: fetch_one\n  region_tag: handwritten_fetch_one\n  description: Fetch one\n"
                                     f"  service: {fs['package']}.{s['name']}\n  rpc: {m['name']}\n")
    if rng.random() < 0.2:
        # the alternative (Ads) template set (its sample template cannot render handwritten sample configs:
        # "'api' is undefined" in every environment, so that combination is not requested)
        o["python-gapic-templates"] = "ads-templates"
        o["old-naming"] = True
        o["transport"] = "grpc"
        spec.pop("sample_config", None)
    # many retryable codes in one entry (set-typed in the generator)
    sc = spec.get("service_config")
    if sc and sc["methodConfig"]:
        for e in sc["methodConfig"]:
            if "retryPolicy" in e and rng.random() < 0.5:
                e["retryPolicy"]["retryableStatusCodes"] = rng.sample(grammar.ALL_CODES, rng.randint(4, 9))
    return spec


def gen_env(rng, idx, n_envs):
    """One build-farm environment, everything drawn from the seed."""
    hs = [0, 1, 2, 3][idx] if idx < 4 else rng.randrange(2**32)
    if idx == 5:
        hs = "random"
    return {
        "hashseed": hs,
        "cwd": rng.choice(["files", "files", "deep", "root", "vendored"]),       # where the process runs
        "relative_opts": None,                                       # decided from cwd
        "stdin": rng.random() < 0.4,
        "TZ": rng.choice(["UTC", "America/Los_Angeles", "Asia/Kolkata", "Pacific/Kiritimati"]),
        "LANG": rng.choice(["C", "C.UTF-8", "en_US.UTF-8", "tr_TR.UTF-8"]),
        "umask": rng.choice([0o022, 0o077, 0o002]),
        "noise": {f"NOISE_{rng.randrange(1000)}": str(rng.random()) for _ in range(rng.randint(0, 3))},
        "clock": float(rng.choice([946684800, 1600000000, 1893456000, 2000000001]) + rng.randrange(86400)),
        "reuse": rng.choice([None, None, "A,B,A", "B,A", "cd:B,A", "F,A", "P,A"]),  # process reuse pattern (cd: both by RELATIVE option paths)
    }


def materialise(spec, base):
    """Write option files + two request files (absolute-path and relative-path parameter)."""
    d = os.path.join(base, "files")
    os.makedirs(d, exist_ok=True)
    os.makedirs(os.path.join(base, "deep", "er", "dir"), exist_ok=True)
    # a working directory that happens to contain directories named like the shipped template sets
    for name in ("ads-templates", "templates"):
        os.makedirs(os.path.join(base, "vendored", name, "stale"), exist_ok=True)
        with open(os.path.join(base, "vendored", name, "stale", "NOTE.txt"), "w") as f:
            f.write("stale vendored copy\n")
    abs_req = world.request_bytes(spec, d, relative_paths=False)
    rel_req = world.request_bytes(spec, d, relative_paths=True)
    with open(os.path.join(d, "req_abs.bin"), "wb") as f:
        f.write(abs_req)
    with open(os.path.join(d, "req_rel.bin"), "wb") as f:
        f.write(rel_req)
    return d


def launch(base, env, tag, other_base=None):
    """Run one environment; returns dict(digest, rc, reads, out_path, err)."""
    d = os.path.join(base, "files")
    cwd = {"files": d, "deep": os.path.join(base, "deep", "er", "dir"), "root": "/",
           "vendored": os.path.join(base, "vendored")}[env["cwd"]]
    rel = env["cwd"] == "files" and not env.get("force_abs")
    req = os.path.join(d, "req_rel.bin" if rel else "req_abs.bin")
    out = os.path.join(base, f"out_{tag}.bin")
    cnt = os.path.join(base, f"cnt_{tag}.txt")
    e = {k: v for k, v in os.environ.items() if not k.startswith("NOISE_")}
    e.update(env["noise"])
    e["PYTHONHASHSEED"] = str(env["hashseed"])
    e["TZ"], e["LANG"], e["LC_ALL"] = env["TZ"], env["LANG"], env["LANG"]
    e["HOME"] = os.path.join(base, "home_" + tag)
    os.makedirs(e["HOME"], exist_ok=True)
    args = [sys.executable, GENCLI, "--clock", repr(env["clock"]), "--count-file", cnt]
    stdin_data = None
    reuse = env.get("reuse")
    if reuse and other_base and reuse.startswith("cd:"):
        # both requests name their option files by the SAME relative strings (retry.json / service.yaml);
        # the worker chdirs into each library's directory in turn
        od = os.path.join(other_base, "files")
        args += ["--cd", od, os.path.join(od, "req_rel.bin"), os.path.join(base, f"other_{tag}.bin"),
                 "--cd", d, os.path.join(d, "req_rel.bin"), out]
    elif reuse == "P,A":
        # fault: pandoc dies during the FIRST generation of this very request (that generation fails); the second one,
        # in the same interpreter with pandoc back, must produce the bytes a fresh process produces
        args += ["--pandoc-fail-gen", "0", req, os.path.join(base, f"other_{tag}.bin"), req, out]
    elif reuse and other_base:
        od = os.path.join(other_base, "files")
        oreq = os.path.join(od, "req_abs.bin")
        seq = []
        k = 0
        for x in reuse.split(","):
            if x == "A":
                seq += [req, out if k == 0 else out + f".again{k}"]
                k += 1
            else:
                seq += [oreq, os.path.join(base, f"other_{tag}.bin")]
        args += seq
    else:
        if env["stdin"]:
            args += ["--stdin", "-", out]
            with open(req, "rb") as f:
                stdin_data = f.read()
        else:
            args += [req, out]

    def pre():
        os.umask(env["umask"])
    p = subprocess.run(args, cwd=cwd, env=e, input=stdin_data, capture_output=True, preexec_fn=pre, timeout=600)
    # only THIS request's generations count: in a reuse pattern the other request may legitimately be one that
    # cannot be generated at all (it is judged as a request of its own)
    ok_here = os.path.exists(out) and not os.path.exists(out + ".err")
    res = {"rc": 0 if ok_here else (p.returncode or 3), "err": p.stderr.decode("utf-8", "replace")[-1500:], "out": out, "digests": []}
    for path in [out] + [out + f".again{i}" for i in range(1, 4)]:
        if os.path.exists(path) and not os.path.exists(path + ".err"):
            with open(path, "rb") as f:
                res["digests"].append(hashlib.sha256(f.read()).hexdigest())
    if os.path.exists(out + ".err"):
        with open(out + ".err") as f:
            res["generr"] = f.read()
    try:
        with open(cnt) as f:
            res["reads"] = int(f.read())
    except Exception:  # noqa
        res["reads"] = None
    return res


def first_diff(a_path, b_path):
    ra, rb = plugin_pb2.CodeGeneratorResponse(), plugin_pb2.CodeGeneratorResponse()
    with open(a_path, "rb") as f:
        ra.ParseFromString(f.read())
    with open(b_path, "rb") as f:
        rb.ParseFromString(f.read())
    na, nb = [f.name for f in ra.file], [f.name for f in rb.file]
    if na != nb:
        return {"kind": "file_list", "only_a": sorted(set(na) - set(nb))[:5], "only_b": sorted(set(nb) - set(na))[:5],
                "order_differs": sorted(na) == sorted(nb)}
    for fa, fb in zip(ra.file, rb.file):
        if fa.content != fb.content:
            d = list(difflib.unified_diff(fa.content.splitlines(), fb.content.splitlines(), "env A", "env B", lineterm="", n=1))
            return {"kind": "content", "file": fa.name, "diff": d[:40]}
    return {"kind": "other (serialization)"}


def signature(spec):
    short = {}
    for fs in spec["files"]:
        for m in fs.get("messages", []):
            if m.get("resource"):
                short.setdefault(m["resource"]["type"].split("/", 1)[1], set()).add(m["resource"]["type"])
    if any(len(v) > 1 for v in short.values()):
        return "two resources with equal short type name reachable from one service"
    return "response bytes differ between environments"


def check_request(spec, base, envs, pool):
    """Runs all environments of one request (in parallel through ``pool``)."""
    materialise(spec, base)
    futs = [pool.submit(launch, base, env, f"e{i}", env.get("other_base")) for i, env in enumerate(envs)]
    res = [f.result() for f in futs]
    return res


def judge(res):
    """-> (verdict, detail): ok | unbuildable | violation"""
    ok = [r for r in res if r["rc"] == 0 and r["digests"]]
    if not ok:
        errs = {(r.get("generr") or r["err"])[:200] for r in res}
        return "unbuildable", {"errors": sorted(errs)[:2]}
    if len(ok) != len(res):
        bad = next(r for r in res if r not in ok)
        return "violation", {"rule": "some_environments_fail", "msg": f"generation succeeds in {len(ok)} environments and fails in "
                             f"{len(res) - len(ok)}: {(bad.get('generr') or bad['err'])[-300:]}", "a": res.index(ok[0]), "b": res.index(bad)}
    digs = {}
    for i, r in enumerate(res):
        for d in r["digests"]:
            digs.setdefault(d, []).append(i)
    if len(digs) > 1:
        groups = sorted(digs.values(), key=lambda g: (-len(g), g))
        return "violation", {"rule": "response_bytes_differ", "a": groups[0][0], "b": groups[1][0],
                             "msg": f"{len(digs)} distinct CodeGeneratorResponse digests over {len(res)} environments "
                                    f"(split {[len(g) for g in groups]})"}
    reads = [r["reads"] for r in res if r["reads"]]
    if reads:
        i = next(i for i, r in enumerate(res) if r["reads"])
        return "violation", {"rule": "wall_clock_read", "a": i, "b": i, "msg": f"the generator read the wall clock {reads[0]} time(s) while generating"}
    return "ok", {}


def minimise(spec, env_a, env_b, rule, budget_s=240):
    """Drop methods / services / messages while the two environments still disagree."""
    import copy
    from concurrent.futures import ThreadPoolExecutor
    from .minimize import _valid
    t0 = time.perf_counter()
    tests = [0]
    pool = ThreadPoolExecutor(2)

    def fails(sp):
        if time.perf_counter() - t0 > budget_s or tests[0] > 60 or not _valid(sp):
            return False
        tests[0] += 1
        base = tempfile.mkdtemp(prefix="gapic-dsim-c10m-", dir=world.scratch_root())
        try:
            ea, eb = dict(env_a, reuse=None), dict(env_b, reuse=None)
            res = check_request(sp, base, [ea, eb], pool)
            v, d = judge(res)
            return v == "violation" and d["rule"] == rule
        except Exception:  # noqa
            return False
        finally:
            shutil.rmtree(base, ignore_errors=True)
    spec = copy.deepcopy(spec)
    if not fails(spec):
        return spec, {"minimised": False, "reproduced": False}
    for fs in spec["files"]:
        for s in list(fs.get("services", ())):
            i = 0
            while i < len(s["methods"]) and len(s["methods"]) > 1:
                old = s["methods"]
                s["methods"] = old[:i] + old[i + 1:]
                if fails(spec):
                    continue
                s["methods"] = old
                i += 1
    for key in ("service_yaml", "service_config"):
        if spec.get(key) is not None:
            old = spec[key]
            spec[key] = None
            if not fails(spec):
                spec[key] = old
    for fs in spec["files"]:
        msgs = fs.get("messages") or []
        i = 0
        while i < len(msgs):
            cand = msgs[:i] + msgs[i + 1:]
            fs["messages"] = cand
            if fails(spec):
                msgs = cand
            else:
                fs["messages"] = msgs
                i += 1
    return spec, {"minimised": True, "reproduced": True, "tests": tests[0], "seconds": round(time.perf_counter() - t0, 1)}


def run_worker(root, bases, order, tag, clock=1_700_000_000.0):
    """Build-worker environment: ONE interpreter generates a whole sequence of different requests
    (absolute option paths).  Returns {position: digest | None}."""
    args = [sys.executable, GENCLI, "--clock", repr(clock), "--count-file", os.path.join(root, f"cnt_{tag}.txt")]
    outs = []
    for pos, i in enumerate(order):
        out = os.path.join(root, f"worker_{tag}_{pos}.bin")
        outs.append(out)
        args += [os.path.join(bases[i], "files", "req_abs.bin"), out]
    e = dict(os.environ)
    e["PYTHONHASHSEED"] = "0"
    subprocess.run(args, cwd=root, env=e, capture_output=True, timeout=3000)
    res = {}
    for pos, out in enumerate(outs):
        if os.path.exists(out) and not os.path.exists(out + ".err"):
            with open(out, "rb") as f:
                res[pos] = hashlib.sha256(f.read()).hexdigest()
        else:
            res[pos] = None
    return res


def replay_worker(rp):
    """Replay of a process_reuse_differs violation: same sequence in one interpreter vs fresh processes."""
    from concurrent.futures import ThreadPoolExecutor
    root = tempfile.mkdtemp(prefix="gapic-dsim-c10w-", dir=world.scratch_root())
    try:
        bases = []
        for i, spec in enumerate(rp["specs"]):
            b = os.path.join(root, f"r{i}")
            os.makedirs(b)
            bases.append(b)
            materialise(spec, b)
        env = {"hashseed": 0, "cwd": "root", "stdin": False, "TZ": "UTC", "LANG": "C", "umask": 0o022, "noise": {}, "clock": 1.7e9, "reuse": None}
        pool = ThreadPoolExecutor(8)
        refs = [f.result() for f in [pool.submit(launch, b, env, "ref") for b in bases]]
        w = run_worker(root, bases, rp["order"], "rp")
        bad = [(pos, i) for pos, i in enumerate(rp["order"]) if refs[i]["digests"] and w[pos] != refs[i]["digests"][0]]
        return bad
    finally:
        shutil.rmtree(root, ignore_errors=True)


def run_replay(path):
    from concurrent.futures import ThreadPoolExecutor
    with open(path) as f:
        rp = json.load(f)
    if rp.get("rule") == "process_reuse_differs":
        bad = replay_worker(rp)
        if bad:
            print(f"VIOLATION property=C10 replay={path}")
            print(f"  rule=process_reuse_differs generation #{bad[0][0]} of the sequence (request {bad[0][1]}) differs from a fresh process")
            return 1
        print(f"OK property=C10 replay {path}: the sequence generates the same bytes as fresh processes on the current tree")
        return 0
    base = tempfile.mkdtemp(prefix="gapic-dsim-c10r-", dir=world.scratch_root())
    try:
        res = check_request(rp["spec"], base, rp["environments"], ThreadPoolExecutor(4))
        v, d = judge(res)
        if v == "violation":
            print(f"VIOLATION property=C10 replay={path}")
            print(f"  rule={d['rule']} {d['msg']}")
            return 1
        print(f"OK property=C10 replay {path}: {v} on the current tree")
        return 0
    finally:
        shutil.rmtree(base, ignore_errors=True)


def main(argv):
    from concurrent.futures import ThreadPoolExecutor
    ap = argparse.ArgumentParser()
    ap.add_argument("--tier", default=os.environ.get("VERIF_TIER", "quick"))
    ap.add_argument("--replay")
    ap.add_argument("--requests", type=int)
    ap.add_argument("--envs", type=int)
    ap.add_argument("--no-selftest", action="store_true")
    ap.add_argument("--no-minimize", action="store_true")
    ap.add_argument("--no-evidence", action="store_true")
    args = ap.parse_args(argv)
    if args.replay:
        return run_replay(args.replay)
    seed = int(os.environ.get("VERIF_SEED", "20261002"))
    b = BUDGET[args.tier]
    nreq, nenv = args.requests or b["requests"], args.envs or b["envs"]
    print(f"VERIF_SEED={seed} property=C10 tier={args.tier} requests={nreq} environments/request={nenv}", flush=True)
    t0 = time.perf_counter()
    root = tempfile.mkdtemp(prefix="gapic-dsim-c10-", dir=world.scratch_root())
    workers = int(os.environ.get("VERIF_WORKERS", "0")) or os.cpu_count() or 4
    pool = ThreadPoolExecutor(workers)
    known = findings.load()
    stats = {"requests": 0, "unbuildable": 0, "processes": 0, "envs": 0, "hashseeds": set(), "reuse_runs": 0, "stdin_runs": 0,
             "relative_option_paths": 0, "clock_instants": set(), "distinct_requests": set(), "samples": [], "by_dim": {}}
    violations = []
    printed = set()
    new = 0
    ref_digest = {}
    try:
        specs = []
        for i in range(nreq):
            spec = gen_request_spec(R.stream(seed, "c10", "spec", i))
            specs.append(spec)
        bases = []
        for i, spec in enumerate(specs):
            base = os.path.join(root, f"r{i}")
            os.makedirs(base)
            bases.append(base)
            materialise(spec, base)
        # build-worker environments run alongside: ONE interpreter generates every request, in four orders
        widx = list(range(len(specs)))
        wr = R.stream(seed, "c10", "worker-order")
        orders = {"fwd": list(widx), "rev": widx[::-1], "shuf1": wr.sample(widx, len(widx)), "shuf2": wr.sample(widx, len(widx))}
        wfuts = {k: pool.submit(run_worker, root, bases, o, k) for k, o in orders.items()}
        # all environments of all requests are submitted at once
        jobs = []
        twins = {}
        for i, spec in enumerate(specs):
            er = R.stream(seed, "c10", "env", i)
            envs = [gen_env(er, j, nenv) for j in range(nenv)]
            for env in envs:
                if env["reuse"] == "P,A":
                    stats["pandoc_failure_first_runs"] = stats.get("pandoc_failure_first_runs", 0) + 1
                    continue
                if env["reuse"] == "F,A":
                    # fault: an earlier generation of (nearly) the same request FAILED in this interpreter - its method
                    # settings name a method that does not exist - and may have left half-built state behind
                    if ("fail", i) not in twins:
                        import copy
                        fb = os.path.join(root, f"r{i}fail")
                        os.makedirs(fb)
                        if er.random() < 0.5:
                            bad = grammar.broken_twin_in_build(spec)      # dies inside API.build, between its passes
                        else:
                            bad = copy.deepcopy(spec)                     # dies after API.build, in settings validation
                            y = bad.setdefault("service_yaml", {"type": "google.api.Service", "config_version": 3, "name": "x.example.com"})
                            y.setdefault("publishing", {})["method_settings"] = [{"selector": bad["package"] + ".NoSuchService.NoSuchMethod",
                                                                                  "auto_populated_fields": ["request_id"]}]
                        try:
                            materialise(bad, fb)
                            twins[("fail", i)] = fb
                        except Exception:  # noqa
                            twins[("fail", i)] = None
                    env["other_base"] = twins[("fail", i)] or bases[(i + 1) % len(bases)]
                    stats["failed_generation_first_runs"] = stats.get("failed_generation_first_runs", 0) + (1 if twins[("fail", i)] else 0)
                    continue
                if env["reuse"]:
                    env["other_base"] = bases[(i + 1) % len(bases)]
                    # half of the reuse patterns pair the request with ITSELF AFTER AN EDIT OF ITS OPTION FILES (a build
                    # worker rebuilding one API): state keyed by package / selector / path instead of content leaks here
                    if (spec.get("service_config") or spec.get("service_yaml")) and er.random() < 0.5:
                        if i not in twins:
                            tb = os.path.join(root, f"r{i}twin")
                            os.makedirs(tb)
                            try:
                                materialise(grammar.twin_spec(R.stream(seed, "c10", "twin", i), spec), tb)
                                twins[i] = tb
                            except Exception:  # noqa
                                twins[i] = None
                        if twins[i]:
                            env["other_base"] = twins[i]
                            stats["twin_reuse_runs"] = stats.get("twin_reuse_runs", 0) + 1
            futs = [pool.submit(launch, bases[i], env, f"e{j}", env.get("other_base")) for j, env in enumerate(envs)]
            jobs.append((i, spec, envs, futs))
            if time.perf_counter() - t0 > b["wall_cap"]:
                break
        for i, spec, envs, futs in jobs:
            res = [f.result() for f in futs]
            stats["requests"] += 1
            stats["processes"] += len(res)
            stats["envs"] += len(envs)
            stats["distinct_requests"].add(R.digest(spec)[:16])
            for env in envs:
                stats["hashseeds"].add(str(env["hashseed"]))
                stats["clock_instants"].add(env["clock"])
                stats["reuse_runs"] += 1 if env["reuse"] else 0
                stats["stdin_runs"] += 1 if (env["stdin"] and not env["reuse"]) else 0
                stats["relative_option_paths"] += 1 if env["cwd"] == "files" else 0
            v, d = judge(res)
            if v == "ok":
                ref_digest[i] = res[0]["digests"][0]
            if v == "unbuildable":
                stats["unbuildable"] += 1
                stats.setdefault("unbuildable_errors", []).append(d["errors"][:1])
                continue
            if len(stats["samples"]) < 3:
                stats["samples"].append({"request": {"package": spec["package"], "options": spec["options"],
                                                     "files": [f["name"] for f in spec["files"]],
                                                     "methods": sum(len(s["methods"]) for f in spec["files"] for s in f.get("services", ()))},
                                         "environments": [{k: e[k] for k in ("hashseed", "cwd", "stdin", "TZ", "LANG", "umask", "clock", "reuse")} for e in envs],
                                         "digests": sorted({dg for r in res for dg in r["digests"]})})
            if v == "violation":
                ea, eb = envs[d["a"]], envs[d["b"]]
                detail = None
                if d["rule"] == "response_bytes_differ":
                    try:
                        detail = first_diff(res[d["a"]]["out"], res[d["b"]]["out"])
                    except Exception as e:  # noqa
                        detail = {"error": str(e)}
                mspec, info = (spec, {"minimised": False}) if args.no_minimize else minimise(spec, ea, eb, d["rule"])
                sig = signature(mspec)
                kf = findings.match(known, "C10", d["rule"], sig)
                if kf is not None:
                    if sig not in printed:
                        printed.add(sig)
                        print(f"KNOWN-FINDING: property=C10 {kf['description']}")
                    continue
                new += 1
                os.makedirs(os.path.join(VERIF, "out", "replays"), exist_ok=True)
                name = f"C10-{seed}-{R.digest([mspec, d['rule']])[:8]}.json"
                path = os.path.join(VERIF, "out", "replays", name)
                with open(path, "w") as f:
                    json.dump({"property": "C10", "rule": d["rule"], "signature": sig, "seed": seed, "message": d["msg"],
                               "spec": mspec, "environments": [dict(ea, reuse=None, other_base=None), dict(eb, reuse=None, other_base=None)],
                               "first_difference": detail, "minimisation": info}, f, indent=1, default=str)
                print(f"VIOLATION property=C10 replay={path}")
                print(f"  rule={d['rule']} {d['msg']}" + (f" first difference: {json.dumps(detail)[:400]}" if detail else ""))
                if new >= 3:
                    break
        # ---- build-worker environments: compare every generation with the fresh-process reference
        if new == 0 and len(ref_digest) >= 2:
            for k, fut in wfuts.items():
                w = fut.result()
                stats["processes"] += 1
                stats["worker_generations"] = stats.get("worker_generations", 0) + len(w)
                for pos, i in enumerate(orders[k]):
                    if i in ref_digest and w[pos] != ref_digest[i]:
                        sig = "a generation differs when earlier requests were generated in the same interpreter"
                        kf = findings.match(known, "C10", "process_reuse_differs", sig)
                        if kf is not None:
                            if sig not in printed:
                                printed.add(sig)
                                print(f"KNOWN-FINDING: property=C10 {kf['description']}")
                            break
                        new += 1
                        os.makedirs(os.path.join(VERIF, "out", "replays"), exist_ok=True)
                        path = os.path.join(VERIF, "out", "replays", f"C10-{seed}-worker-{k}.json")
                        with open(path, "w") as f:
                            json.dump({"property": "C10", "rule": "process_reuse_differs", "signature": sig, "seed": seed,
                                       "message": f"generation #{pos} (request {i}) in a build-worker interpreter differs from the same request generated in a fresh process",
                                       "specs": specs, "order": orders[k][:pos + 1]}, f, default=str)
                        print(f"VIOLATION property=C10 replay={path}")
                        print(f"  rule=process_reuse_differs generation #{pos} of order '{k}' (request {i}) differs from the bytes produced by a fresh process "
                              f"({'no output' if w[pos] is None else 'different digest'})")
                        break
    finally:
        pool.shutdown(wait=True, cancel_futures=True)
        shutil.rmtree(root, ignore_errors=True)
    wall = time.perf_counter() - t0
    judged = stats["requests"] - stats["unbuildable"]
    if not args.no_evidence:
        ev = {"property_id": "C10", "tier": args.tier, "seed": seed, "level": "exploration", "wall_s": round(wall, 2), "violations": new,
              "coverage": {
                  "evaluations": stats["processes"],
                  "distinct_nontrivial": len(stats["distinct_requests"]) if len(stats["hashseeds"]) >= 2 else 0,
                  "rule": "evaluation = one generator process run (real CLI entry point) in one drawn environment; a case is a "
                          "request; it is non-trivial when it was generated under >=2 distinct hash seeds / process instances "
                          "(always, by construction); distinct = distinct request spec digests",
                  "samples": stats["samples"] or [{"note": "no sample"}],
                  "requests": stats["requests"], "requests_judged": judged, "requests_unbuildable_in_every_environment": stats["unbuildable"],
                  "unbuildable_errors": stats.get("unbuildable_errors", [])[:3],
                  "environments_per_request": nenv, "distinct_hash_seeds": len(stats["hashseeds"]),
                  "process_reuse_runs": stats["reuse_runs"], "stdin_runs": stats["stdin_runs"],
                  "build_worker_generations": stats.get("worker_generations", 0),
                  "relative_option_path_runs": stats["relative_option_paths"], "distinct_clock_instants": len(stats["clock_instants"]),
                  "faults_fired": {"hash_seed_change": stats["processes"], "process_reuse": stats["reuse_runs"], "process_reuse_same_api_edited_options": stats.get("twin_reuse_runs", 0), "process_reuse_after_failed_generation": stats.get("failed_generation_first_runs", 0), "process_reuse_after_pandoc_failure": stats.get("pandoc_failure_first_runs", 0),
                                   "cwd_change": stats["processes"], "env_noise": stats["processes"], "fake_wall_clock": stats["processes"]},
                  "processes_per_hour": int(stats["processes"] / wall * 3600) if wall else 0,
                  "components_real": ["gapic.cli.generate.generate (real CLI entry point), whole generator, both option files, in separate interpreter processes"],
                  "components_stub": ["pandoc (pass-through stub)", "wall clock (fake, read-counting)", "protoc (requests built programmatically)"],
                  "technique": "deterministic simulation of ambient nondeterminism (seeded hash seed / process / cwd / env / clock schedule), byte-equality oracle",
              },
              "assumptions": ["an order leak over a 2-element tie flips with probability 1/2 per hash seed: 8 seeds miss it with probability 2^-7",
                              "pandoc is stubbed", "requests come from the order-stress grammar profile (DESIGN.md section 4 C10)"]}
        os.makedirs(os.path.join(VERIF, "evidence"), exist_ok=True)
        with open(os.path.join(VERIF, "evidence", "C10.json"), "w") as f:
            json.dump(ev, f, indent=1, default=str)
    if new:
        return 1
    if judged < 0.7 * stats["requests"] or judged == 0:
        print(f"HARNESS-ERROR property=C10: only {judged}/{stats['requests']} requests could be generated in any environment: "
              f"{stats.get('unbuildable_errors', [])[:2]}")
        return 2
    print(f"OK property=C10 requests={judged} processes={stats['processes']} hash_seeds={len(stats['hashseeds'])} "
          f"reuse_runs={stats['reuse_runs']} wall={wall:.1f}s")
    return 0
