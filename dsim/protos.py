"""Lower an ApiSpec (plain JSON-like data) to FileDescriptorProtos + option files.

No protoc exists in the sandbox, so descriptors are built programmatically.  Dependency files
are copied from the installed ``*_pb2`` modules.  Every file set is validated by loading it
into a private DescriptorPool (a rejection is a harness error, never a violation).

The ApiSpec format is documented in DESIGN.md section 3 and by example in ``specs.py``.
"""
import json

from google.protobuf import descriptor_pb2 as dpb
from google.protobuf import descriptor_pool, message_factory

# import so that their descriptors are registered in the default pool
from google.api import annotations_pb2, client_pb2, field_behavior_pb2, resource_pb2  # noqa
from google.api import routing_pb2, field_info_pb2, launch_stage_pb2, http_pb2  # noqa
from google.longrunning import operations_pb2  # noqa
from google.protobuf import empty_pb2, any_pb2, duration_pb2, timestamp_pb2  # noqa
from google.protobuf import wrappers_pb2, struct_pb2, field_mask_pb2  # noqa
from google.rpc import status_pb2, code_pb2  # noqa
from google.type import date_pb2, latlng_pb2, money_pb2, expr_pb2  # noqa
from google.iam.v1 import iam_policy_pb2, policy_pb2, options_pb2  # noqa
from google.cloud.location import locations_pb2  # noqa
from google.cloud import extended_operations_pb2 as ex_ops_pb2  # noqa

F = dpb.FieldDescriptorProto

SCALARS = {
    "double": F.TYPE_DOUBLE, "float": F.TYPE_FLOAT, "int64": F.TYPE_INT64, "uint64": F.TYPE_UINT64,
    "int32": F.TYPE_INT32, "fixed64": F.TYPE_FIXED64, "fixed32": F.TYPE_FIXED32, "bool": F.TYPE_BOOL,
    "string": F.TYPE_STRING, "bytes": F.TYPE_BYTES, "uint32": F.TYPE_UINT32, "sfixed32": F.TYPE_SFIXED32,
    "sfixed64": F.TYPE_SFIXED64, "sint32": F.TYPE_SINT32, "sint64": F.TYPE_SINT64,
}


def json_name(name: str) -> str:
    """protoc's ToJsonName: drop underscores, capitalise the following letter."""
    out, up = [], False
    for ch in name:
        if ch == "_":
            up = True
        elif up:
            out.append(ch.upper())
            up = False
        else:
            out.append(ch)
    return "".join(out)


def _camel(name: str) -> str:
    return "".join(p[:1].upper() + p[1:] for p in name.split("_"))


def _default_pool_file(name: str) -> dpb.FileDescriptorProto:
    fd = descriptor_pool.Default().FindFileByName(name)
    p = dpb.FileDescriptorProto()
    fd.CopyToProto(p)
    return p


def _file_of_symbol(sym: str):
    """File name (in the default pool) that defines a dependency symbol like .google.protobuf.Empty"""
    return descriptor_pool.Default().FindFileContainingSymbol(sym.lstrip(".")).name


def _lower_field(f, msg_proto, oneof_index):
    fp = msg_proto.field.add()
    fp.name = f["name"]
    fp.number = f["number"]
    fp.json_name = json_name(f["name"])
    t = f["type"]
    if "map" in f and f["map"]:
        # synthesise the map entry message
        entry = msg_proto.nested_type.add()
        entry.name = _camel(f["name"]) + "Entry"
        entry.options.map_entry = True
        k = entry.field.add(name="key", number=1, label=F.LABEL_OPTIONAL, json_name="key")
        k.type = SCALARS[f["map"]["key"]]
        v = entry.field.add(name="value", number=2, label=F.LABEL_OPTIONAL, json_name="value")
        vt = f["map"]["value"]
        if vt["type"] == "message":
            v.type = F.TYPE_MESSAGE
            v.type_name = vt["type_name"]
        elif vt["type"] == "enum":
            v.type = F.TYPE_ENUM
            v.type_name = vt["type_name"]
        else:
            v.type = SCALARS[vt["type"]]
        fp.type = F.TYPE_MESSAGE
        fp.label = F.LABEL_REPEATED
        fp.type_name = "__MAPENTRY__:" + entry.name  # fixed up by caller (needs parent's full name)
    elif t == "message":
        fp.type = F.TYPE_MESSAGE
        fp.type_name = f["type_name"]
    elif t == "enum":
        fp.type = F.TYPE_ENUM
        fp.type_name = f["type_name"]
    else:
        fp.type = SCALARS[t]
    if not ("map" in f and f["map"]):
        fp.label = F.LABEL_REPEATED if f.get("repeated") else F.LABEL_OPTIONAL
    if f.get("oneof") is not None:
        fp.oneof_index = oneof_index[f["oneof"]]
    if f.get("optional"):
        fp.proto3_optional = True
        fp.oneof_index = oneof_index["_" + f["name"]]
    if f.get("required"):
        fp.options.Extensions[field_behavior_pb2.field_behavior].append(field_behavior_pb2.REQUIRED)
    for b in f.get("behaviors", ()):
        fp.options.Extensions[field_behavior_pb2.field_behavior].append(field_behavior_pb2.FieldBehavior.Value(b))
    if f.get("resource_ref"):
        fp.options.Extensions[resource_pb2.resource_reference].type = f["resource_ref"]
    if f.get("child_ref"):
        fp.options.Extensions[resource_pb2.resource_reference].child_type = f["child_ref"]
    if f.get("deprecated"):
        fp.options.deprecated = True
    if f.get("uuid4"):
        fp.options.Extensions[field_info_pb2.field_info].format = field_info_pb2.FieldInfo.UUID4
    if f.get("operation_field"):
        fp.options.Extensions[ex_ops_pb2.operation_field] = ex_ops_pb2.OperationResponseMapping.Value(f["operation_field"])
    if f.get("operation_request_field"):
        fp.options.Extensions[ex_ops_pb2.operation_request_field] = f["operation_request_field"]
    if f.get("operation_response_field"):
        fp.options.Extensions[ex_ops_pb2.operation_response_field] = f["operation_response_field"]
    return fp


def _lower_enum(e, ep):
    ep.name = e["name"]
    for n, v in e["values"]:
        ep.value.add(name=n, number=v)


def _lower_message(m, mp, full_name):
    mp.name = m["name"]
    oneof_index = {}
    for o in m.get("oneofs", ()):
        oneof_index[o] = len(mp.oneof_decl)
        mp.oneof_decl.add(name=o)
    # synthetic oneofs for proto3 optional come after the real ones (as protoc does)
    for f in m["fields"]:
        if f.get("optional"):
            oneof_index["_" + f["name"]] = len(mp.oneof_decl)
            mp.oneof_decl.add(name="_" + f["name"])
    for f in m["fields"]:
        fp = _lower_field(f, mp, oneof_index)
        if fp.type_name.startswith("__MAPENTRY__:"):
            fp.type_name = "." + full_name + "." + fp.type_name.split(":", 1)[1]
    for n in m.get("messages", ()):
        _lower_message(n, mp.nested_type.add(), full_name + "." + n["name"])
    for e in m.get("enums", ()):
        _lower_enum(e, mp.enum_type.add())
    if m.get("resource"):
        r = mp.options.Extensions[resource_pb2.resource]
        r.type = m["resource"]["type"]
        r.pattern.extend(m["resource"]["patterns"])
        if m["resource"].get("name_field"):
            r.name_field = m["resource"]["name_field"]


def _set_http(rule, h):
    if h["verb"] == "custom":
        rule.custom.kind = h.get("kind", "HEAD")
        rule.custom.path = h["path"]
    else:
        setattr(rule, h["verb"], h["path"])
    if h.get("body"):
        rule.body = h["body"]
    if h.get("response_body"):
        rule.response_body = h["response_body"]


def _lower_method(m, mp):
    mp.name = m["name"]
    mp.input_type = m["input"]
    mp.output_type = m["output"]
    if m.get("client_streaming"):
        mp.client_streaming = True
    if m.get("server_streaming"):
        mp.server_streaming = True
    if m.get("http"):
        rule = mp.options.Extensions[annotations_pb2.http]
        _set_http(rule, m["http"])
        for a in m["http"].get("additional", ()):
            _set_http(rule.additional_bindings.add(), a)
    for s in m.get("signatures", ()):
        mp.options.Extensions[client_pb2.method_signature].append(s)
    if m.get("routing") is not None:
        rr = mp.options.Extensions[routing_pb2.routing]
        rr.SetInParent()                # [] = the annotation is present and empty
        for p in m["routing"]:
            rp = rr.routing_parameters.add()
            rp.field = p["field"]
            if p.get("path_template"):
                rp.path_template = p["path_template"]
    if m.get("operation_polling_method"):
        mp.options.Extensions[ex_ops_pb2.operation_polling_method] = True
    if m.get("operation_service"):
        mp.options.Extensions[ex_ops_pb2.operation_service] = m["operation_service"]
    if m.get("lro") is not None:
        oi = mp.options.Extensions[operations_pb2.operation_info]
        oi.SetInParent()
        if m["lro"].get("response_type"):
            oi.response_type = m["lro"]["response_type"]
        if m["lro"].get("metadata_type"):
            oi.metadata_type = m["lro"]["metadata_type"]


def _walk_type_names(m):
    for f in m["fields"]:
        if f.get("map"):
            vt = f["map"]["value"]
            if vt["type"] in ("message", "enum"):
                yield vt["type_name"]
        elif f["type"] in ("message", "enum"):
            yield f["type_name"]
    for n in m.get("messages", ()):
        yield from _walk_type_names(n)


def _defined_symbols(fs, prefix=None):
    """Full names (with leading dot) defined by a spec file."""
    out = []

    def walk(m, pre):
        full = pre + "." + m["name"]
        out.append(full)
        for n in m.get("messages", ()):
            walk(n, full)
        for e in m.get("enums", ()):
            out.append(full + "." + e["name"])

    for m in fs.get("messages", ()):
        walk(m, "." + fs["package"])
    for e in fs.get("enums", ()):
        out.append("." + fs["package"] + "." + e["name"])
    return out


def _add_comments(fd, salt):
    """source_code_info with a leading comment on every message, top-level field, enum, service and method (what protoc
    records for documented protos); `salt` lets an edited copy of an API differ in its comments only."""
    def loc(path, text):
        l = fd.source_code_info.location.add()
        l.path.extend(path)
        l.span.extend([len(fd.source_code_info.location), 0, 1])
        l.leading_comments = f" {text}{(' ' + salt) if salt else ''}.\n"
    for i, m in enumerate(fd.message_type):
        loc([4, i], f"The {m.name} message")
        for j, f in enumerate(m.field):
            loc([4, i, 2, j], f"The `{f.name}` of a {m.name} (see [{m.name}][])")      # markup: goes through pandoc
    for i, e in enumerate(fd.enum_type):
        loc([5, i], f"The {e.name} enum")
    for i, s in enumerate(fd.service):
        loc([6, i], f"The {s.name} service")
        for j, m in enumerate(s.method):
            loc([6, i, 2, j], f"Calls {m.name} on {s.name}")


def lower(spec):
    """Returns (all_files [deps first], target_file_names)."""
    symbol_file = {}
    for fs in spec["files"]:
        for s in _defined_symbols(fs):
            symbol_file[s] = fs["name"]

    targets = []
    for fs in spec["files"]:
        fd = dpb.FileDescriptorProto(name=fs["name"], package=fs["package"], syntax="proto3")
        deps = []

        def need(name):
            if name != fs["name"] and name not in deps:
                deps.append(name)

        def need_symbol(sym):
            if sym in symbol_file:
                need(symbol_file[sym])
            else:
                need(_file_of_symbol(sym))

        for imp in fs.get("imports", ()):
            need(imp)
        for m in fs.get("messages", ()):
            _lower_message(m, fd.message_type.add(), fs["package"] + "." + m["name"])
            for tn in _walk_type_names(m):
                need_symbol(tn)
        for e in fs.get("enums", ()):
            _lower_enum(e, fd.enum_type.add())
        for rd in fs.get("resource_definitions", ()):
            r = fd.options.Extensions[resource_pb2.resource_definition].add()
            r.type = rd["type"]
            r.pattern.extend(rd["patterns"])
            need("google/api/resource.proto")
        for s in fs.get("services", ()):
            sp = fd.service.add(name=s["name"])
            if s.get("host"):
                sp.options.Extensions[client_pb2.default_host] = s["host"]
            if s.get("scopes"):
                sp.options.Extensions[client_pb2.oauth_scopes] = ",".join(s["scopes"])
            need("google/api/client.proto")
            for m in s["methods"]:
                _lower_method(m, sp.method.add())
                if not m.get("unimported_io"):
                    need_symbol(m["input"])
                    need_symbol(m["output"])
                if m.get("http"):
                    need("google/api/annotations.proto")
                if m.get("routing") is not None:
                    need("google/api/routing.proto")
                if m.get("lro") is not None:
                    need("google/longrunning/operations.proto")
        # annotations used by messages
        txt = fd.SerializeToString()
        blob = json.dumps(fs)
        if '"required": true' in blob or '"behaviors"' in blob:
            need("google/api/field_behavior.proto")
        if '"resource"' in blob or '"resource_ref"' in blob or '"child_ref"' in blob:
            need("google/api/resource.proto")
        if '"uuid4": true' in blob:
            need("google/api/field_info.proto")
        if '"operation_field"' in blob or '"operation_service"' in blob or '"operation_polling_method"' in blob:
            need("google/cloud/extended_operations.proto")
        del txt
        fd.dependency.extend(deps)
        if spec.get("comments"):
            _add_comments(fd, str(spec.get("comment_salt", "")))
        targets.append(fd)

    # order: dependency closure from the default pool, then targets in dependency order
    out, seen = [], set()
    tmap = {t.name: t for t in targets}

    def visit(name):
        if name in seen:
            return
        seen.add(name)
        if name in tmap:
            fdp = tmap[name]
        else:
            fdp = _default_pool_file(name)
        for d in fdp.dependency:
            visit(d)
        out.append(fdp)

    for t in targets:
        visit(t.name)
    gen = [fs["name"] for fs in spec["files"] if not fs.get("dependency_only")]
    return out, gen


def build_pool(files):
    pool = descriptor_pool.DescriptorPool()
    for f in files:
        pool.Add(f)
    for f in files:
        pool.FindFileByName(f.name)  # forces a build; raises on inconsistency
    return pool


class Codec:
    """Dynamic messages over a private pool that holds only the INPUT descriptors."""

    def __init__(self, files):
        self.pool = build_pool(files)
        self._cls = {}

    def cls(self, full_name):
        full_name = full_name.lstrip(".")
        c = self._cls.get(full_name)
        if c is None:
            c = message_factory.GetMessageClass(self.pool.FindMessageTypeByName(full_name))
            self._cls[full_name] = c
        return c

    def desc(self, full_name):
        return self.pool.FindMessageTypeByName(full_name.lstrip("."))

    def parse(self, full_name, data: bytes):
        m = self.cls(full_name)()
        m.ParseFromString(data)
        return m


def option_files(spec):
    """(retry_json_text | None, service_yaml_text | None) -- JSON is valid YAML."""
    rc = spec.get("service_config")
    sy = spec.get("service_yaml")
    return (json.dumps(rc, indent=1, sort_keys=True) if rc is not None else None,
            json.dumps(sy, indent=1, sort_keys=True) if sy is not None else None)


def option_string(spec, retry_path=None, yaml_path=None, samples_path=None):
    o = dict(spec.get("options") or {})
    parts = []
    tr = o.pop("transport", None)
    if tr:
        parts.append("transport=" + tr)
    for k in sorted(o):
        v = o[k]
        if v is True:
            parts.append(k)
        elif v is False or v is None:
            if k == "autogen-snippets":
                parts.append("autogen-snippets=false")
        else:
            parts.append(f"{k}={v}")
    if retry_path:
        parts.append("retry-config=" + retry_path)
    if yaml_path:
        parts.append("service-yaml=" + yaml_path)
    if samples_path:
        parts.append("samples=" + samples_path)
    return ",".join(parts)
