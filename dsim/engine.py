"""Execute one scenario against a world and record its history.

scenario = {
  "client": "sync" | "async" | "rest",
  "actors": [{"start": seconds, "ops": [op, ...]}, ...],     # sync/rest: exactly one actor
  "entropy_seed": int, "overshoot": 0.0,
}
op = {"id", "kind", "service", "method", "form", "request", "kwargs", "call", "server", "jitter", ...}
(see the op executors below for kind-specific keys).  Everything a run does is a pure function of
(code, spec, scenario): replaying the scenario reproduces the history exactly.
"""
import asyncio
import json

from google.api_core import exceptions as core_exceptions
from google.api_core import retry as retries
from google.api_core import retry_async as retries_async
from google.auth import credentials as ga_credentials

from . import simclock, simloop, simgrpc, values
from .simclock import CLOCK, CURRENT_OP
from .world import snake, find_method

CODE_TO_EXC = {
    "CANCELLED": core_exceptions.Cancelled, "UNKNOWN": core_exceptions.Unknown,
    "INVALID_ARGUMENT": core_exceptions.InvalidArgument, "DEADLINE_EXCEEDED": core_exceptions.DeadlineExceeded,
    "NOT_FOUND": core_exceptions.NotFound, "ALREADY_EXISTS": core_exceptions.AlreadyExists,
    "PERMISSION_DENIED": core_exceptions.PermissionDenied, "RESOURCE_EXHAUSTED": core_exceptions.ResourceExhausted,
    "FAILED_PRECONDITION": core_exceptions.FailedPrecondition, "ABORTED": core_exceptions.Aborted,
    "OUT_OF_RANGE": core_exceptions.OutOfRange, "UNIMPLEMENTED": core_exceptions.MethodNotImplemented,
    "INTERNAL": core_exceptions.InternalServerError, "UNAVAILABLE": core_exceptions.ServiceUnavailable,
    "DATA_LOSS": core_exceptions.DataLoss, "UNAUTHENTICATED": core_exceptions.Unauthenticated,
}
ALL_CODES = sorted(CODE_TO_EXC)


class SimCredentials(ga_credentials.Credentials):
    """Refreshable credentials (what a real application has): google-auth's AuthorizedSession answers an HTTP 401 by
    refreshing them and RE-SENDING the same request, below api-core's retry layer."""

    def __init__(self, sim):
        super().__init__()
        self.sim = sim
        self.n = 0
        self.token = "sim-token-0"

    def get_cred_info(self):
        # what service-account / ADC credentials report (google-auth >= 2.35); emitted clients add it to auth errors
        return {"credential_source": "/sim/key.json", "credential_type": "service account credentials", "principal": "sim@example.iam.invalid"}

    def refresh(self, request):
        self.n += 1
        self.token = f"sim-token-{self.n}"
        self.sim.ev("credentials_refreshed", op=CURRENT_OP.get(), n=self.n)


def add_in_place_edits(rng, actors, p=0.4, kinds=("unary", "sstream", "lro", "flat")):
    """Caller behaviour: within one actor, a later call of the same RPC re-submits the request OBJECT of the earlier
    call after editing it in place (op['mutate_of']).  Sequential within an actor, so it is legal for asyncio too."""
    for a in actors:
        last = {}
        for op in a["ops"]:
            if op.get("kind") in kinds and op.get("form") in ("msg", "dict") and not op.get("reuse_of"):
                key = (op["service"], op["method"], op["form"])
                prev = last.get(key)
                if prev is not None and rng.random() < p:
                    op["mutate_of"] = prev
                last[key] = op["id"]


def client_method(client, rpc):
    """Bound client method for an RPC (keyword-named RPCs carry one trailing underscore)."""
    n = snake(rpc)
    fn = getattr(client, n, None)
    if fn is None:
        fn = getattr(client, n + "_")
    return fn


def to_bytes(resp):
    """Serialized form + python class of whatever a client method returned."""
    if resp is None:
        return None, None
    cls = type(resp)
    if hasattr(cls, "pb") and hasattr(cls, "serialize"):
        return cls.serialize(resp), f"{cls.__module__}.{cls.__qualname__}"
    if hasattr(resp, "SerializeToString"):
        return resp.SerializeToString(), f"{cls.__module__}.{cls.__qualname__}"
    # The client handed the caller something that is no message at all (e.g. an un-awaited coroutine, a bare
    # callable).  That is the library's failure, not the harness's: remember it (the driver turns it into a
    # violation of every property, rule=not_a_message) and keep the run going.
    name = f"{cls.__module__}.{cls.__qualname__}"
    BAD_RETURNS.append(name)
    if hasattr(resp, "close") and hasattr(resp, "cr_frame"):
        resp.close()
    return b"", "!not-a-message:" + name


BAD_RETURNS = []


def take_bad_returns():
    out = list(BAD_RETURNS)
    del BAD_RETURNS[:]
    return out


def describe(resp):
    """(serialized bytes, python class path, runtime descriptor full name) of a returned message."""
    if resp is None:
        return None, None, None
    if isinstance(resp, (bytes, bytearray)):
        return bytes(resp), "builtins.bytes", None      # raw bytes handed to the caller (no deserializer)
    b, cls = to_bytes(resp)
    t = type(resp)
    if hasattr(t, "pb") and hasattr(t, "serialize"):
        full = t.pb(resp).DESCRIPTOR.full_name
    else:
        full = resp.DESCRIPTOR.full_name
    return b, cls, full


def exc_info(e):
    d = {"cls": type(e).__name__, "mod": type(e).__module__}
    code = getattr(e, "grpc_status_code", None)
    if code is not None:
        d["code"] = code.name
    cause = getattr(e, "cause", None)
    if isinstance(e, core_exceptions.RetryError) and cause is not None:
        d["cause"] = type(cause).__name__
    d["msg"] = str(e)[:200]
    d["api_error"] = isinstance(e, core_exceptions.GoogleAPICallError)
    return d


class Run:
    """One simulated run: world + scenario -> history."""

    def __init__(self, world, scenario, server_factory):
        self.world = world
        self.sc = scenario
        self.ops = {}
        for a in scenario["actors"]:
            for op in a["ops"]:
                self.ops[op["id"]] = op
        self.sim = simgrpc.Sim(None)
        self.sim.numeric_enums = bool((world.spec.get("options") or {}).get("rest-numeric-enums"))
        self.sim.json_pool = world.codec.pool
        self.second_pass = set()        # ops whose pager is being walked a second time (the page server lets pages be fetched again)
        self.sim.unknown_reply_field = bool(scenario.get("unknown_reply_field"))
        self.sim.http_error_body = scenario.get("http_error_body")      # None (google.rpc JSON) | "html" | "empty"
        self.server = server_factory(self)
        self.sim.server = self.server
        self.clients = {}
        self.channels = {}
        self.req_objects = {}
        self.mut_objects = {}
        # request objects are kept alive ONLY when a later op of the scenario re-submits them; everything else is
        # dropped as an application would, so that freed objects can be followed by new ones at the same address
        self.keep_ids = {o.get(k) for o in self.ops.values() for k in ("reuse_of", "mutate_of", "resubmit_of") if o.get(k) is not None}
        for o in self.ops.values():
            if o.get("nested"):
                self.keep_ids.add(o["id"])
        self.cur_channel = {}
        self._last_key = None
        self.shared_md = {}
        self.shared_retry = {}

    # ------------------------------------------------------------------ helpers
    def request_desc(self, op):
        _, _, m = find_method(self.world.spec, op["service"], op["method"])
        return self.world.codec.desc(m["input"]), m

    def build_call(self, op, asyncio_flavour):
        """(args, kwargs) for the client method from the op description."""
        desc, m = self.request_desc(op)
        kwargs = {}
        form = op.get("form", "dict")
        args = ()
        if form == "dict":
            kwargs["request"] = values.to_native(desc, op.get("request") or {})
        elif form == "msg":
            kwargs["request"] = self.message_instance(m["input"], values.to_native(desc, op.get("request") or {}))
        elif form == "none":
            pass
        elif form == "kwargs":
            kwargs.update(values.to_native_kwargs(desc, op.get("kwargs") or {}))
        elif form == "both":
            kwargs["request"] = values.to_native(desc, op.get("request") or {})
            kwargs.update(values.to_native_kwargs(desc, op.get("kwargs") or {}))
        if form in ("dict", "msg") and op.get("resubmit_of") is not None and op["resubmit_of"] in self.mut_objects:
            # legal caller behaviour: the very same request object is submitted again, untouched (e.g. after an error)
            kwargs["request"] = self.mut_objects[op["resubmit_of"]]
            self.sim.ev("request_object_resubmitted", op=op["id"], of=op["resubmit_of"])
        elif form in ("dict", "msg"):
            # legal caller behaviour: ONE request object is kept by the caller, edited in place between calls
            # (req.name = ...; client.get(request=req)); 'mutate_of' names the op whose object is edited here
            prev = self.mut_objects.get(op.get("mutate_of")) if op.get("mutate_of") is not None else None
            new = kwargs["request"]
            if prev is not None and type(prev) is type(new):
                if isinstance(prev, dict):
                    prev.clear()
                    prev.update(new)
                elif hasattr(type(prev), "pb") and hasattr(type(prev), "serialize"):
                    type(prev).pb(prev).Clear()
                    type(prev).pb(prev).MergeFrom(type(new).pb(new))
                else:
                    prev.Clear()
                    prev.MergeFrom(new)
                kwargs["request"] = prev
                self.sim.ev("request_object_edited_in_place", op=op["id"], of=op["mutate_of"])
            if op["id"] in self.keep_ids:
                self.mut_objects[op["id"]] = kwargs["request"]
        call = op.get("call") or {}
        r = call.get("retry", "default")
        if r == "none":
            kwargs["retry"] = None
        elif isinstance(r, dict):
            R = retries_async.AsyncRetry if asyncio_flavour else retries.Retry
            kwargs["retry"] = R(
                initial=r["initial"], maximum=r["maximum"], multiplier=r["multiplier"],
                predicate=retries.if_exception_type(*[CODE_TO_EXC[c] for c in r["codes"]]),
                timeout=r.get("timeout"))
            if call.get("retry_shared"):
                # legal caller behaviour: ONE Retry object is defined once and passed to many (also concurrent) calls
                key = (call["retry_shared"], asyncio_flavour, json.dumps(r, sort_keys=True))
                kwargs["retry"] = self.shared_retry.setdefault(key, kwargs["retry"])
        t = call.get("timeout", "default")
        if t != "default":
            kwargs["timeout"] = t
        if call.get("metadata"):
            kwargs["metadata"] = [(k, bytes.fromhex(v["__b"]) if isinstance(v, dict) else v) for k, v in call["metadata"]]
            if call.get("metadata_form") == "tuple":
                kwargs["metadata"] = tuple(kwargs["metadata"])
            elif call.get("metadata_shared"):
                # legal caller behaviour: the very same LIST object is passed to several calls
                kwargs["metadata"] = self.shared_md.setdefault(call["metadata_shared"], kwargs["metadata"])
        return args, kwargs

    def message_instance(self, full_name, native):
        """Instance of the emitted (or dependency pb2) class for an input/output type."""
        cls = self.message_class(full_name)
        if hasattr(cls, "pb") and hasattr(cls, "serialize"):
            return cls(native)
        from google.protobuf import json_format  # dependency pb2 classes: build by keywords
        return cls(**native)

    def message_class(self, full_name):
        full_name = full_name.lstrip(".")
        pkg = self.world.spec["package"]
        short = full_name.rsplit(".", 1)[-1]
        for fs in self.world.spec["files"]:
            if fs.get("dependency_only"):
                continue          # a dependency package: its classes are the installed pb2 ones (symbol database below)
            if full_name.startswith(fs["package"] + "."):
                rel = full_name[len(fs["package"]) + 1:].split(".")
                obj = None
                # types are re-exported by the versioned root module; sub-packages by their own
                import importlib
                modname = self.world.root_name
                if fs["package"] != pkg:
                    sub = fs["package"][len(pkg) + 1:]
                    modname = modname + "." + sub  # not used by the default grammar
                mod = importlib.import_module(modname)
                obj = getattr(mod, rel[0])
                for part in rel[1:]:
                    obj = getattr(obj, part)
                return obj
        from google.protobuf import symbol_database
        return symbol_database.Default().GetSymbol(full_name)

    # ------------------------------------------------------------------ drivers
    def run(self):
        sc = self.sc
        simclock.install()
        simclock.reset(entropy_seed=sc.get("entropy_seed", 0), entropy_script=sc.get("entropy_script"))
        simclock.JITTER.reset({op["id"]: op.get("jitter") or [] for op in self.ops.values()},
                              default=sc.get("jitter_default", 1.0))
        CLOCK.overshoot = sc.get("overshoot", 0.0)
        CLOCK.on_sleep = lambda d: self.sim.ev("sleep", op=CURRENT_OP.get(), d=round(d, 9))
        simgrpc.SimChannel._next = 0
        simgrpc._task_seq[0] = 0
        kind = sc["client"]
        log_restore = self._debug_logging() if sc.get("debug_logging") else None
        try:
            if kind == "async":
                simloop.run(self._run_async)
            elif sc.get("threads") and len(sc["actors"]) > 1:
                self._run_threads(kind)
            else:
                self._run_sync(kind)
        except simgrpc.SimRunaway as e:
            # not a harness error: the client under test exceeded every bound of the model
            self.sim.max_events += 10
            self.sim.history.append({"seq": len(self.sim.history), "t": round(CLOCK.now - simclock.EPOCH, 6),
                                     "k": "runaway", "op": CURRENT_OP.get(), "msg": str(e)})
        finally:
            CLOCK.on_sleep = None
            if log_restore is not None:
                log_restore()
        return self.sim.history

    def _debug_logging(self):
        """DEBUG logging on the emitted package's logger, with a handler that really formats every record."""
        import logging
        lg = logging.getLogger(self.world.root_name.split(".")[0])
        old_level, old_prop = lg.level, lg.propagate
        count = [0]

        class _H(logging.Handler):
            def emit(self, rec):
                count[0] += 1
                rec.getMessage()
                str(rec.__dict__.get("httpRequest", "")) + str(rec.__dict__.get("httpResponse", "")) + str(rec.__dict__.get("rpcName", ""))
        h = _H()
        lg.addHandler(h)
        lg.setLevel(logging.DEBUG)
        lg.propagate = False

        def restore():
            lg.removeHandler(h)
            lg.setLevel(old_level)
            lg.propagate = old_prop
            self.sim.max_events += 1
            self.sim.history.append({"seq": len(self.sim.history), "t": round(CLOCK.now - simclock.EPOCH, 6), "k": "log_records", "n": count[0]})
        return restore

    def _sync_client(self, service, kind, actor=0):
        key = (service, kind, actor if self.sc.get("clients") == "per_actor" else 0)
        if key not in self.clients:
            svc = self.world.services[service]
            if kind == "rest":
                creds = SimCredentials(self.sim) if self.sc.get("credentials") == "refreshable" else ga_credentials.AnonymousCredentials()
                tr = svc["rest"](credentials=creds, host=self.sc.get("rest_host", "sim.invalid"),
                                 url_scheme=self.sc.get("url_scheme", "https"))
                self.clients[key] = svc["sync"](transport=tr)
            else:
                if self.sc.get("channel_via") == "create_channel":
                    # the transport builds its OWN channel (the normal production path): the seam is api-core's
                    # grpc_helpers.create_channel, which receives the channel args the emitted transport asks for
                    from google.api_core import grpc_helpers
                    made, orig = {}, grpc_helpers.create_channel
                    grpc_helpers.create_channel = lambda target, **kw: made.setdefault("ch", simgrpc.SimChannel(self.sim, options=kw.get("options") or []))
                    try:
                        tr = svc["grpc"](credentials=ga_credentials.AnonymousCredentials(), host="sim.invalid")
                    finally:
                        grpc_helpers.create_channel = orig
                    ch = made["ch"]
                else:
                    ch = simgrpc.SimChannel(self.sim)
                    tr = svc["grpc"](channel=ch, host="sim.invalid")
                self.channels[key] = ch
                if self.sc.get("credentials") == "refreshable":
                    tr._credentials = SimCredentials(self.sim)      # as if the transport had been built from credentials
                self.clients[key] = svc["sync"](transport=tr)
        self._last_key = key
        return self.clients[key]

    def _async_client(self, service, actor=0):
        key = (service, "async", actor if self.sc.get("clients") == "per_actor" else 0)
        if key not in self.clients:
            svc = self.world.services[service]
            if self.sc.get("channel_via") == "create_channel":
                from google.api_core import grpc_helpers_async
                made, orig = {}, grpc_helpers_async.create_channel
                grpc_helpers_async.create_channel = lambda target, **kw: made.setdefault("ch", simgrpc.SimAioChannel(self.sim, options=kw.get("options") or []))
                try:
                    tr = svc["grpc_asyncio"](credentials=ga_credentials.AnonymousCredentials(), host="sim.invalid")
                finally:
                    grpc_helpers_async.create_channel = orig
                ch = made["ch"]
            else:
                ch = simgrpc.SimAioChannel(self.sim)
                tr = svc["grpc_asyncio"](channel=ch, host="sim.invalid")
            self.channels[key] = ch
            if self.sc.get("credentials") == "refreshable":
                tr._credentials = SimCredentials(self.sim)
            self.clients[key] = svc["async"](transport=tr)
        self._last_key = key
        return self.clients[key]

    def _run_sync(self, kind):
        from . import simhttp
        if kind == "rest":
            simhttp.install(self.sim)
        try:
            for ai, a in enumerate(self.sc["actors"]):
                if a.get("start"):
                    CLOCK.advance(a["start"])
                for op in a["ops"]:
                    if op.get("delay"):
                        CLOCK.advance(op["delay"])
                    client = self._client_or_event(op, lambda: self._sync_client(op["service"], kind, ai))
                    if client is None:
                        continue
                    self.cur_channel[op["id"]] = getattr(self.channels.get(self._last_key), "cid", None)
                    tok = CURRENT_OP.set(op["id"])
                    try:
                        SYNC_EXEC[op["kind"]](self, client, op)
                    finally:
                        CURRENT_OP.reset(tok)
        finally:
            if kind == "rest":
                simhttp.uninstall()

    def _client_or_event(self, op, make):
        """A client / transport that cannot even be constructed is the library's failure: recorded as the op's outcome."""
        try:
            return make()
        except Exception as e:  # noqa
            _invoke_ev(self, op)
            self.sim.ev("raise", op=op["id"], stage="client_construction", **exc_info(e))
            return None

    def _run_threads(self, kind):
        """Sync flavour, one REAL thread per actor, all sharing the client(s); interleaving decided by simthreads."""
        from . import simhttp, simthreads
        if kind == "rest":
            simhttp.install(self.sim)
        sched = simthreads.ThreadSched(self.sc.get("sched_seed", 0),
                                       preempt_prefix=self.world.outdir if self.sc.get("preempt_p") else None,
                                       preempt_p=float(self.sc.get("preempt_p") or 0.0))

        locks = sched.cooperative_locks(self.world.outdir)
        locks.__enter__()
        # clients are built BEFORE the threads start (in this thread, in scenario order): the threads share them, and
        # the harness's own bookkeeping is never touched by two threads
        built = {}
        for ai, a in enumerate(self.sc["actors"]):
            for op in a["ops"]:
                key = (op["service"], kind, ai if self.sc.get("clients") == "per_actor" else 0)
                if key in built:
                    continue
                try:
                    self._sync_client(op["service"], kind, ai)
                    built[key] = None
                except Exception as e:  # noqa
                    built[key] = e

        def body(ai, a):
            def fn():
                for op in a["ops"]:
                    if op.get("delay"):
                        CLOCK.advance(op["delay"])
                    key = (op["service"], kind, ai if self.sc.get("clients") == "per_actor" else 0)
                    if built.get(key) is not None:
                        _invoke_ev(self, op)
                        self.sim.ev("raise", op=op["id"], stage="client_construction", **exc_info(built[key]))
                        continue
                    client = self.clients.get(key) or self._client_or_event(op, lambda: self._sync_client(op["service"], kind, ai))
                    if client is None:
                        continue
                    self.cur_channel[op["id"]] = getattr(self.channels.get(key), "cid", None)
                    tok = CURRENT_OP.set(op["id"])
                    try:
                        SYNC_EXEC[op["kind"]](self, client, op)
                    finally:
                        CURRENT_OP.reset(tok)
            return fn
        try:
            self.sim.ev("threads", n=len(self.sc["actors"]))
            sched.run([body(i, a) for i, a in enumerate(self.sc["actors"])], [a.get("start", 0.0) for a in self.sc["actors"]])
            self.sim.ev("threads_done", switches=sched.switches, preemptions=sched.preemptions)
        finally:
            locks.__exit__()
            if kind == "rest":
                simhttp.uninstall()

    async def _run_async(self):
        async def actor(i, a):
            if a.get("start"):
                await asyncio.sleep(a["start"])
            for op in a["ops"]:
                if op.get("delay"):
                    await asyncio.sleep(op["delay"])
                client = self._client_or_event(op, lambda: self._async_client(op["service"], i))
                if client is None:
                    continue
                self.cur_channel[op["id"]] = getattr(self.channels.get(self._last_key), "cid", None)
                tok = CURRENT_OP.set(op["id"])
                try:
                    await ASYNC_EXEC[op["kind"]](self, client, op)
                finally:
                    CURRENT_OP.reset(tok)
        loop = asyncio.get_event_loop()
        tasks = [loop.create_task(actor(i, a), name=f"actor-{i}") for i, a in enumerate(self.sc["actors"])]
        cancels = self.sc.get("cancels") or []   # [{"actor": i, "at": t}]
        for c in cancels:
            loop.call_at(CLOCK.now + c["at"], self._cancel_actor, tasks, c["actor"])
        res = await asyncio.gather(*tasks, return_exceptions=True)
        for i, r in enumerate(res):
            if isinstance(r, asyncio.CancelledError):
                self.sim.ev("actor_cancelled", actor=i)
            elif isinstance(r, BaseException):
                raise r

    def _cancel_actor(self, tasks, i):
        if not tasks[i].done():
            self.sim.ev("cancel", actor=i)
            tasks[i].cancel()


# ---------------------------------------------------------------------- op executors

def _invoke_ev(run, op, **kw):
    run.sim.ev("invoke", op=op["id"], kind=op["kind"], service=op["service"], method=op["method"],
               form=op.get("form", "dict"), ch=run.cur_channel.get(op["id"]), **kw)


def _sync_unary(run, client, op):
    fn = client_method(client, op["method"])
    args, kwargs = run.build_call(op, False)
    _invoke_ev(run, op)
    try:
        resp = fn(*args, **kwargs)
    except Exception as e:  # noqa
        run.sim.ev("raise", op=op["id"], **exc_info(e))
        return
    _unary_return(run, op, resp)


def _unary_return(run, op, resp):
    if resp is not None and hasattr(type(resp), "pages") and not hasattr(type(resp), "pb"):
        run.sim.ev("return", op=op["id"], value=None, cls=type(resp).__name__, pager=True)
        return
    b, cls = to_bytes(resp)
    run.sim.ev("return", op=op["id"], value=None if b is None else b.hex(), cls=cls)


async def _async_unary(run, client, op):
    fn = client_method(client, op["method"])
    args, kwargs = run.build_call(op, True)
    _invoke_ev(run, op)
    try:
        resp = await fn(*args, **kwargs)
    except asyncio.CancelledError:
        run.sim.ev("cancelled", op=op["id"])
        raise
    except Exception as e:  # noqa
        run.sim.ev("raise", op=op["id"], **exc_info(e))
        return
    _unary_return(run, op, resp)


def norm_item(x):
    """JSON-able form of something a pager/stream yielded."""
    if isinstance(x, tuple):
        return {"pair": [norm_item(x[0]), norm_item(x[1])]}
    if isinstance(x, bytes):
        return {"__b": x.hex()}
    if isinstance(x, (str, int, float, bool)) and not hasattr(x, "name"):
        return x
    if hasattr(x, "name") and hasattr(x, "value") and isinstance(x, int):   # proto-plus enum
        return int(x)
    b, cls = to_bytes(x)
    return {"msg": b.hex(), "cls": cls}


def _reuse_request(run, op, kwargs):
    """'reuse_of': submit the very same request OBJECT that another op used (legal caller
    behaviour); otherwise remember this op's request object."""
    if op.get("reuse_of") is not None and op["reuse_of"] in run.req_objects:
        kwargs["request"] = run.req_objects[op["reuse_of"]]
    elif "request" in kwargs and op["id"] in run.keep_ids:
        run.req_objects[op["id"]] = kwargs["request"]


def _read_attrs(run, op, pager, page=None):
    """page=n: read while page n (1-based) is the most recent one, i.e. BETWEEN two page fetches."""
    extra = {"page": page} if page is not None else {}
    for name in op.get("read_attrs") or []:
        try:
            v = getattr(pager, name)
            run.sim.ev("attr", op=op["id"], name=name, value=norm_item(v) if not hasattr(v, "__len__") or isinstance(v, (str, bytes)) else len(v), **extra)
        except Exception as e:  # noqa
            run.sim.ev("attr", op=op["id"], name=name, error=type(e).__name__, **extra)


def _sync_paged(run, client, op):
    fn = client_method(client, op["method"])
    args, kwargs = run.build_call(op, False)
    _reuse_request(run, op, kwargs)
    _invoke_ev(run, op)
    try:
        pager = fn(*args, **kwargs)
        run.sim.ev("pager", op=op["id"], cls=type(pager).__name__, has_pages=hasattr(type(pager), "pages"))
        if not hasattr(type(pager), "pages"):
            b, cls = to_bytes(pager)
            run.sim.ev("return", op=op["id"], value=b.hex(), cls=cls)
            return
        n = 0
        nested = op.get("nested")
        if op.get("consume") == "pages":
            for page in pager.pages:
                b, cls = to_bytes(page)
                run.sim.ev("page", op=op["id"], value=b.hex(), cls=cls)
                n += 1
                if op.get("read_attrs_each_page"):
                    _read_attrs(run, op, pager, page=n)
                if nested and nested["after"] == n:
                    _run_nested_sync(run, client, nested["op"])
                if op.get("stop_after") == n:
                    break
        else:
            if nested and nested["after"] == 0:
                _run_nested_sync(run, client, nested["op"])
            for item in pager:
                run.sim.ev("item", op=op["id"], value=norm_item(item))
                n += 1
                if nested and nested["after"] == n:
                    _run_nested_sync(run, client, nested["op"])
                if op.get("stop_after") == n:
                    break
        _read_attrs(run, op, pager)
        if op.get("reiterate"):
            # caller behaviour: the pager is treated as an iterable and walked a SECOND time (len(list(pager)), then a loop)
            run.second_pass.add(op["id"])
            run.sim.ev("second_pass", op=op["id"])
            try:
                for item in pager:
                    run.sim.ev("item2", op=op["id"], value=norm_item(item))
                run.sim.ev("second_pass_end", op=op["id"], outcome="return")
            except Exception as e2:  # noqa
                run.sim.ev("second_pass_end", op=op["id"], outcome="raise", **exc_info(e2))
    except Exception as e:  # noqa
        run.sim.ev("raise", op=op["id"], **exc_info(e))
        if op.get("resume") and "pager" in locals() and hasattr(type(pager), "pages"):
            # caller behaviour: the error of a page fetch is caught and the SAME pager object is iterated again
            run.second_pass.add(op["id"])        # (a pager that starts over may ask for pages it already had)
            run.sim.ev("resumed", op=op["id"])
            try:
                for item in pager:
                    run.sim.ev("resumed_item", op=op["id"], value=norm_item(item))
                run.sim.ev("resumed_end", op=op["id"], outcome="return")
            except Exception as e2:  # noqa
                run.sim.ev("resumed_end", op=op["id"], outcome="raise", **exc_info(e2))
        return
    run.sim.ev("return", op=op["id"], value=None, cls=None)


def _run_nested_sync(run, client, op):
    tok = CURRENT_OP.set(op["id"])
    try:
        SYNC_EXEC[op["kind"]](run, client, op)
    finally:
        CURRENT_OP.reset(tok)


async def _run_nested_async(run, client, op):
    tok = CURRENT_OP.set(op["id"])
    try:
        await ASYNC_EXEC[op["kind"]](run, client, op)
    finally:
        CURRENT_OP.reset(tok)


async def _async_paged(run, client, op):
    fn = client_method(client, op["method"])
    args, kwargs = run.build_call(op, True)
    _reuse_request(run, op, kwargs)
    _invoke_ev(run, op)
    try:
        pager = await fn(*args, **kwargs)
        run.sim.ev("pager", op=op["id"], cls=type(pager).__name__, has_pages=hasattr(type(pager), "pages"))
        if not hasattr(type(pager), "pages"):
            b, cls = to_bytes(pager)
            run.sim.ev("return", op=op["id"], value=b.hex(), cls=cls)
            return
        n = 0
        nested = op.get("nested")
        if op.get("consume") == "pages":
            async for page in pager.pages:
                b, cls = to_bytes(page)
                run.sim.ev("page", op=op["id"], value=b.hex(), cls=cls)
                n += 1
                if op.get("read_attrs_each_page"):
                    _read_attrs(run, op, pager, page=n)
                if nested and nested["after"] == n:
                    await _run_nested_async(run, client, nested["op"])
                if op.get("stop_after") == n:
                    break
        else:
            if nested and nested["after"] == 0:
                await _run_nested_async(run, client, nested["op"])
            async for item in pager:
                run.sim.ev("item", op=op["id"], value=norm_item(item))
                n += 1
                if op.get("think"):
                    await asyncio.sleep(op["think"])
                if nested and nested["after"] == n:
                    await _run_nested_async(run, client, nested["op"])
                if op.get("stop_after") == n:
                    break
        _read_attrs(run, op, pager)
        if op.get("reiterate"):
            run.second_pass.add(op["id"])
            run.sim.ev("second_pass", op=op["id"])
            try:
                async for item in pager:
                    run.sim.ev("item2", op=op["id"], value=norm_item(item))
                run.sim.ev("second_pass_end", op=op["id"], outcome="return")
            except asyncio.CancelledError:
                raise
            except Exception as e2:  # noqa
                run.sim.ev("second_pass_end", op=op["id"], outcome="raise", **exc_info(e2))
    except asyncio.CancelledError:
        run.sim.ev("cancelled", op=op["id"])
        raise
    except Exception as e:  # noqa
        run.sim.ev("raise", op=op["id"], **exc_info(e))
        if op.get("resume") and "pager" in locals() and hasattr(type(pager), "pages"):
            run.second_pass.add(op["id"])
            run.sim.ev("resumed", op=op["id"])
            try:
                async for item in pager:
                    run.sim.ev("resumed_item", op=op["id"], value=norm_item(item))
                run.sim.ev("resumed_end", op=op["id"], outcome="return")
            except asyncio.CancelledError:
                run.sim.ev("cancelled", op=op["id"])
                raise
            except Exception as e2:  # noqa
                run.sim.ev("resumed_end", op=op["id"], outcome="raise", **exc_info(e2))
        return
    run.sim.ev("return", op=op["id"], value=None, cls=None)


def _ev_msg(run, kind, op, resp):
    b, cls, full = describe(resp)
    run.sim.ev(kind, op=op["id"], value=None if b is None else b.hex(), cls=cls, full=full)


def _sync_lro(run, client, op):
    fn = client_method(client, op["method"])
    args, kwargs = run.build_call(op, False)
    _invoke_ev(run, op)
    try:
        fut = fn(*args, **kwargs)
    except Exception as e:  # noqa
        run.sim.ev("raise", op=op["id"], stage="initial", **exc_info(e))
        return
    if not hasattr(fut, "result"):
        _ev_msg(run, "return", op, fut)     # raw Operation (method without operation_info)
        return
    run.sim.ev("future", op=op["id"], cls=f"{type(fut).__module__}.{type(fut).__qualname__}")
    try:
        if op.get("read_metadata"):
            _ev_msg(run, "metadata", op, fut.metadata)
        res = fut.result(**({"timeout": op["result_timeout"]} if op.get("result_timeout") else {}))
    except Exception as e:  # noqa
        run.sim.ev("raise", op=op["id"], stage="result", **exc_info(e))
        return
    _ev_msg(run, "result", op, res)
    try:
        _ev_msg(run, "metadata_after", op, fut.metadata)
    except Exception as e:  # noqa
        run.sim.ev("raise", op=op["id"], stage="metadata_after", **exc_info(e))
        return
    run.sim.ev("return", op=op["id"], value=None, cls=None)


async def _async_lro(run, client, op):
    fn = client_method(client, op["method"])
    args, kwargs = run.build_call(op, True)
    _invoke_ev(run, op)
    try:
        fut = await fn(*args, **kwargs)
    except asyncio.CancelledError:
        run.sim.ev("cancelled", op=op["id"])
        raise
    except Exception as e:  # noqa
        run.sim.ev("raise", op=op["id"], stage="initial", **exc_info(e))
        return
    if not hasattr(fut, "result"):
        _ev_msg(run, "return", op, fut)
        return
    run.sim.ev("future", op=op["id"], cls=f"{type(fut).__module__}.{type(fut).__qualname__}")
    try:
        if op.get("read_metadata"):
            _ev_msg(run, "metadata", op, fut.metadata)
        res = await fut.result(**({"timeout": op["result_timeout"]} if op.get("result_timeout") else {}))
    except asyncio.CancelledError:
        run.sim.ev("cancelled", op=op["id"])
        raise
    except Exception as e:  # noqa
        run.sim.ev("raise", op=op["id"], stage="result", **exc_info(e))
        return
    _ev_msg(run, "result", op, res)
    try:
        _ev_msg(run, "metadata_after", op, fut.metadata)
    except Exception as e:  # noqa
        run.sim.ev("raise", op=op["id"], stage="metadata_after", **exc_info(e))
        return
    run.sim.ev("return", op=op["id"], value=None, cls=None)


def _stream_requests(run, op):
    desc, m = run.request_desc(op)
    reqs = []
    for v in op.get("requests") or []:
        nat = values.to_native(desc, v)
        reqs.append(run.message_instance(m["input"], nat) if op.get("form", "msg") == "msg" else nat)
    return reqs


def _call_opts(run, op, asyncio_flavour):
    o = dict(op)
    o["form"] = "none"
    _, kwargs = run.build_call(o, asyncio_flavour)
    return kwargs


def _sync_sstream(run, client, op):
    fn = client_method(client, op["method"])
    args, kwargs = run.build_call(op, False)
    _invoke_ev(run, op)
    try:
        stream = fn(*args, **kwargs)
        n = 0
        for item in stream:
            run.sim.ev("item", op=op["id"], value=norm_item(item))
            n += 1
            if op.get("stop_after") == n:
                break
    except Exception as e:  # noqa
        run.sim.ev("raise", op=op["id"], **exc_info(e))
        return
    run.sim.ev("return", op=op["id"], value=None, cls=None)


async def _async_sstream(run, client, op):
    fn = client_method(client, op["method"])
    args, kwargs = run.build_call(op, True)
    _invoke_ev(run, op)
    try:
        stream = await fn(*args, **kwargs)
        n = 0
        async for item in stream:
            run.sim.ev("item", op=op["id"], value=norm_item(item))
            n += 1
            if op.get("think"):
                await asyncio.sleep(op["think"])
            if op.get("stop_after") == n:
                break
    except asyncio.CancelledError:
        run.sim.ev("cancelled", op=op["id"])
        raise
    except Exception as e:  # noqa
        run.sim.ev("raise", op=op["id"], **exc_info(e))
        return
    run.sim.ev("return", op=op["id"], value=None, cls=None)


def _sync_cstream(run, client, op):
    fn = client_method(client, op["method"])
    kwargs = _call_opts(run, op, False)
    _invoke_ev(run, op)
    try:
        resp = fn(requests=iter(_stream_requests(run, op)), **kwargs)
    except Exception as e:  # noqa
        run.sim.ev("raise", op=op["id"], **exc_info(e))
        return
    _unary_return(run, op, resp)


async def _async_cstream(run, client, op):
    fn = client_method(client, op["method"])
    kwargs = _call_opts(run, op, True)
    _invoke_ev(run, op)
    reqs = _stream_requests(run, op)

    async def agen():
        for r in reqs:
            if op.get("think"):
                await asyncio.sleep(op["think"])
            yield r
    try:
        resp = await fn(requests=agen() if op.get("aiter", True) else iter(reqs), **kwargs)
        if hasattr(resp, "__await__"):
            # api-core hands back the stream-unary CALL (after wait_for_connection); its result is the reply
            run.sim.ev("awaitable_call", op=op["id"], cls=type(resp).__name__)
            resp = await resp
    except asyncio.CancelledError:
        run.sim.ev("cancelled", op=op["id"])
        raise
    except Exception as e:  # noqa
        run.sim.ev("raise", op=op["id"], **exc_info(e))
        return
    _unary_return(run, op, resp)


def _sync_bidi(run, client, op):
    fn = client_method(client, op["method"])
    kwargs = _call_opts(run, op, False)
    _invoke_ev(run, op)
    try:
        stream = fn(requests=iter(_stream_requests(run, op)), **kwargs)
        for item in stream:
            run.sim.ev("item", op=op["id"], value=norm_item(item))
    except Exception as e:  # noqa
        run.sim.ev("raise", op=op["id"], **exc_info(e))
        return
    run.sim.ev("return", op=op["id"], value=None, cls=None)


async def _async_bidi(run, client, op):
    fn = client_method(client, op["method"])
    kwargs = _call_opts(run, op, True)
    _invoke_ev(run, op)
    reqs = _stream_requests(run, op)

    async def agen():
        for r in reqs:
            if op.get("think"):
                await asyncio.sleep(op["think"])
            yield r
    try:
        stream = await fn(requests=agen(), **kwargs)
        async for item in stream:
            run.sim.ev("item", op=op["id"], value=norm_item(item))
    except asyncio.CancelledError:
        run.sim.ev("cancelled", op=op["id"])
        raise
    except Exception as e:  # noqa
        run.sim.ev("raise", op=op["id"], **exc_info(e))
        return
    run.sim.ev("return", op=op["id"], value=None, cls=None)


def _sync_reseed(run, client, op):
    """Legal host behaviour (a 'fault' for anything that draws ids from the global PRNG): the
    application re-seeds `random` with a fixed value, as many test/batch/ML jobs do per job or epoch."""
    import random
    random.seed(op["seed"])
    run.sim.ev("reseed", op=op["id"], seed=op["seed"])


async def _async_reseed(run, client, op):
    _sync_reseed(run, client, op)


SYNC_EXEC = {"unary": _sync_unary, "paged": _sync_paged, "lro": _sync_lro, "sstream": _sync_sstream, "reseed": _sync_reseed,
             "cstream": _sync_cstream, "bidi": _sync_bidi}
ASYNC_EXEC = {"unary": _async_unary, "paged": _async_paged, "lro": _async_lro, "sstream": _async_sstream, "reseed": _async_reseed,
              "cstream": _async_cstream, "bidi": _async_bidi}


# ---------------------------------------------------------------------- default scripted server

def scripted_server(run):
    """Server whose behaviour for attempt n of op X is op["server"][n-1] (last entry repeats).

    outcome keys: lat, code, reply (valuation of the method's output type) / reply_hex.
    """
    codec = run.world.codec

    def serve(call):
        op = run.ops.get(call["op"])
        if op is None:
            return {"code": "INTERNAL", "lat": 0.0}
        script = op.get("server") or [{}]
        if call["n"] <= len(script):
            o = script[call["n"] - 1]
        else:
            # faults stop: beyond the script the server answers cleanly
            o = {k: v for k, v in script[-1].items() if k not in ("code", "cut")}
            o["lat"] = min(o.get("lat", 0.0), 0.01)
        out = {"lat": o.get("lat", 0.0)}
        if o.get("conn_error"):
            out["conn_error"] = True           # REST only: the connection breaks, no HTTP status at all
            return out
        if o.get("code"):
            out["code"] = o["code"]
            return out
        if call.get("tr") == "rest":
            _, _, m = find_method(run.world.spec, op["service"], op["method"])
        else:
            sm = run.world.rpc.get(call["path"])
            if sm is None:
                out["code"] = "UNIMPLEMENTED"
                return out
            _, m, _ = sm
        if "items" in o:
            out["msgs"] = [values.to_dynamic(codec, m["output"], v) for v in o["items"]]
            out["item_lat"] = o.get("item_lat") or []
            out["chunks"] = o.get("chunks") or []
            if o.get("cut"):
                out["cut"] = o["cut"]
        elif "reply_hex" in o:
            out["reply"] = bytes.fromhex(o["reply_hex"])
        else:
            out["msg"] = values.to_dynamic(codec, m["output"], o.get("reply") or {})
        return out
    return serve


def runaway_violation(history):
    """Shared oracle clause: a finite server script must lead to a finite call."""
    ra = next((e for e in history if e["k"] == "runaway"), None)
    if ra is None:
        return None
    return [{"rule": "runaway", "op": ra.get("op"), "msg": "the client kept issuing requests beyond every bound of the "
             "model (" + str(ra.get("msg")) + "): a finite server script must lead to a finite call"}]
