"""Virtual time, jitter and entropy seams.

Installed once per simulation process (a forked child).  After ``install()``:
  * time.sleep / time.monotonic / time.time read and advance ``CLOCK`` (never block);
  * google.api_core.datetime_helpers.utcnow() reads the same clock (it is bound as a default
    argument inside api-core's TimeToDeadlineTimeout, so the function object is patched in place
    through the module-level ``datetime`` name it resolves at call time);
  * google.api_core.retry.retry_base.random is ``JITTER`` (uniform(a,b) = a + f*(b-a), f scripted);
  * uuid.uuid4 draws its 16 bytes from ``ENTROPY`` (seeded, replayable).
The harness itself measures wall time with time.perf_counter (not patched).
"""
import contextvars
import datetime as _dt
import time as _time
import types
import uuid as _uuid
import random as _random

REAL_SLEEP = _time.sleep
REAL_MONOTONIC = _time.monotonic
REAL_TIME = _time.time

EPOCH = 1_000_000.0  # simulated clock origin (small, so float ulp << timer resolution)

# The operation (scenario op id) on whose behalf the current code runs; set by the engine around
# every client invocation.  Context variables follow asyncio tasks, so concurrent actors are
# told apart without the harness touching the emitted code.
CURRENT_OP = contextvars.ContextVar("dsim_current_op", default=None)


class SimClock:
    def __init__(self):
        self.reset()

    def reset(self):
        self.now = EPOCH
        self.on_sleep = None      # callback(d) -> recorded by the history
        self.overshoot = 0.0      # sleep(d) returns after d*(1+overshoot)
        self.sched = None         # simthreads.ThreadSched while real caller threads are being scheduled

    def sleep(self, d):
        d = float(d)
        if d < 0:
            raise ValueError("sleep length must be non-negative")
        if self.on_sleep is not None:
            self.on_sleep(d)
        if self.sched is not None:
            self.sched.wait(d * (1.0 + self.overshoot))     # park this caller thread; others run meanwhile
        else:
            self.now += d * (1.0 + self.overshoot)

    def monotonic(self):
        return self.now

    def time(self):
        return self.now

    def advance(self, d):
        if self.sched is not None:
            self.sched.wait(d)
        else:
            self.now += d


CLOCK = SimClock()


class Jitter:
    """Replacement for the ``random`` module as seen by api-core's retry code."""

    def __init__(self):
        self.reset()

    def reset(self, per_op=None, default=1.0):
        self.per_op = {k: list(v) for k, v in (per_op or {}).items()}
        self.default = default
        self.draws = []
        self.on_draw = None

    def _next(self):
        fr = self.per_op.get(CURRENT_OP.get())
        return fr.pop(0) if fr else self.default

    def uniform(self, a, b):
        f = self._next()
        self.draws.append(f)
        v = a + f * (b - a)
        if self.on_draw is not None:
            self.on_draw(f, a, b)
        return v

    def random(self):
        return self._next()


JITTER = Jitter()


class Entropy:
    def __init__(self):
        self.reset(0)

    def reset(self, seed, script=None):
        self.rng = _random.Random(seed)
        self.script = list(script or [])   # explicit 16-byte hex strings used first
        self.issued = []

    def urandom(self, n):
        if n == 16 and self.script:
            b = bytes.fromhex(self.script.pop(0))
        else:
            b = bytes(self.rng.randrange(256) for _ in range(n))
        self.issued.append(b.hex())
        return b


ENTROPY = Entropy()

_installed = False


class _Proxy:
    """Module stand-in: overrides a few names, delegates the rest."""

    def __init__(self, real, **over):
        self.__dict__["_real"] = real
        self.__dict__.update(over)

    def __getattr__(self, k):
        return getattr(self._real, k)


class _FakeDateTime(_dt.datetime):
    @classmethod
    def now(cls, tz=None):
        return _dt.datetime.fromtimestamp(CLOCK.now, tz)

    @classmethod
    def utcnow(cls):
        return _dt.datetime.fromtimestamp(CLOCK.now, _dt.timezone.utc).replace(tzinfo=None)


def install():
    global _installed
    if _installed:
        return
    _installed = True
    _time.sleep = CLOCK.sleep
    _time.monotonic = CLOCK.monotonic
    _time.time = CLOCK.time
    import google.api_core.datetime_helpers as dh
    dh.datetime = _Proxy(_dt, datetime=_FakeDateTime)
    import google.api_core.retry.retry_base as rb
    rb.random = JITTER
    # uuid.uuid4() == UUID(bytes=os.urandom(16), version=4); patch the name it resolves.
    _uuid.os = _Proxy(_uuid.os, urandom=ENTROPY.urandom)


def reset(jitter=None, jitter_default=1.0, entropy_seed=0, entropy_script=None):
    # the process-global PRNG is ambient state too: pin it so that code drawing from it stays replayable
    _random.seed(entropy_seed ^ 0x5EED)
    CLOCK.reset()
    JITTER.reset(jitter, jitter_default)
    ENTROPY.reset(entropy_seed, entropy_script)
