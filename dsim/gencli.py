"""Wrapper around the real CLI entry point (gapic.cli.generate.generate) used by the C10 engine.

  gencli.py --clock <instant> --count-file <path> [--stdin] ([--cd <dir>] <request-file> <output-file>)+

* installs the pandoc pass-through stub (binary absent in the sandbox);
* installs a fake wall clock (time.time/time_ns/gmtime/localtime, datetime.now/utcnow/today) that
  returns the drawn instant AND counts reads made while the generator runs;
* runs the generator once per (request, output) pair IN THIS PROCESS (process reuse);
  with --stdin the first request is fed through stdin instead of --request.
"""
import datetime as _dt
import io
import sys
import time as _time

import pypandoc

PANDOC_FAIL_GEN = [None]       # index of the generation (in this process) during which pandoc "dies"
GEN_NO = [-1]


def _convert_text(text, to, format=None, extra_args=()):
    if PANDOC_FAIL_GEN[0] is not None and GEN_NO[0] == PANDOC_FAIL_GEN[0]:
        raise RuntimeError("pandoc died with exitcode 83 during conversion (injected)")
    return text


pypandoc.convert_text = _convert_text

READS = [0]
ARMED = [False]


def _install_clock(instant):
    def _hit():
        if ARMED[0]:
            READS[0] += 1
    real_gmtime, real_localtime = _time.gmtime, _time.localtime

    def f_time():
        _hit()
        return instant

    def f_time_ns():
        _hit()
        return int(instant * 1e9)

    def f_gmtime(secs=None):
        if secs is None:
            _hit()
            secs = instant
        return real_gmtime(secs)

    def f_localtime(secs=None):
        if secs is None:
            _hit()
            secs = instant
        return real_localtime(secs)
    _time.time, _time.time_ns, _time.gmtime, _time.localtime = f_time, f_time_ns, f_gmtime, f_localtime

    class FakeDT(_dt.datetime):
        @classmethod
        def now(cls, tz=None):
            _hit()
            return _dt.datetime.fromtimestamp(instant, tz)

        @classmethod
        def utcnow(cls):
            _hit()
            return _dt.datetime.fromtimestamp(instant, _dt.timezone.utc).replace(tzinfo=None)

        @classmethod
        def today(cls):
            _hit()
            return _dt.datetime.fromtimestamp(instant)

    class FakeDate(_dt.date):
        @classmethod
        def today(cls):
            _hit()
            return _dt.date.fromtimestamp(instant)
    _dt.datetime = FakeDT
    _dt.date = FakeDate


def main(argv):
    instant, count_file, use_stdin = 1_600_000_000.0, None, False
    pairs = []
    i = 0
    while i < len(argv):
        if argv[i] == "--clock":
            instant = float(argv[i + 1]); i += 2
        elif argv[i] == "--count-file":
            count_file = argv[i + 1]; i += 2
        elif argv[i] == "--stdin":
            use_stdin = True; i += 1
        elif argv[i] == "--pandoc-fail-gen":
            PANDOC_FAIL_GEN[0] = int(argv[i + 1]); i += 2
        elif argv[i] == "--cd":
            pairs.append(("--cd", argv[i + 1])); i += 2
        else:
            pairs.append((argv[i], argv[i + 1])); i += 2
    _install_clock(instant)
    from gapic.cli.generate import generate
    rc = 0
    import os
    n = -1
    for (req, out) in pairs:
        if req == "--cd":
            os.chdir(out)          # a build worker moves to the next library's directory between generations
            continue
        n += 1
        GEN_NO[0] = n
        ARMED[0] = True
        try:
            if use_stdin and n == 0:
                # exactly what protoc does: request on stdin (the click option's default)
                generate.main(args=["--output", out], standalone_mode=False)
            else:
                generate.main(args=["--request", req, "--output", out], standalone_mode=False)
        except BaseException as e:  # noqa
            rc = 3
            with open(out + ".err", "w") as f:
                f.write(f"{type(e).__name__}: {str(e)[:500]}")
        finally:
            ARMED[0] = False
    if count_file:
        with open(count_file, "w") as f:
            f.write(str(READS[0]))
    return rc


if __name__ == "__main__":
    sys.exit(main(sys.argv[1:]))
