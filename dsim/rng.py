"""One integer decides everything: labelled sub-streams derived from VERIF_SEED.

Every random choice in the harness is drawn from ``stream(seed, *labels)``; adding a draw in
one stream never shifts another.  Nothing here reads a clock or the ambient ``random`` state.
"""
import hashlib
import random


def derive(seed, *labels) -> int:
    h = hashlib.sha256(("/".join([str(seed)] + [str(l) for l in labels])).encode()).digest()
    return int.from_bytes(h[:8], "big")


def stream(seed, *labels) -> random.Random:
    return random.Random(derive(seed, *labels))


def digest(obj) -> str:
    """Stable digest of a JSON-like object (lists/dicts/str/int/float/bool/None/bytes)."""
    import json

    def norm(o):
        if isinstance(o, bytes):
            return {"__b": o.hex()}
        if isinstance(o, dict):
            return {str(k): norm(v) for k, v in sorted(o.items(), key=lambda kv: str(kv[0]))}
        if isinstance(o, (list, tuple)):
            return [norm(x) for x in o]
        if isinstance(o, float):
            return repr(o)
        return o

    return hashlib.sha256(json.dumps(norm(obj), sort_keys=True, separators=(",", ":")).encode()).hexdigest()


def deep():
    """True in the thorough tier: scenario generators widen their bounds (more pages, longer outages,
    more concurrent actors, longer call sequences)."""
    import os
    return os.environ.get("VERIF_TIER_ACTIVE") == "thorough"
