"""Generic check driver for the simulated (runtime) properties.

A property module provides:
  ID, gen_spec(rng), gen_scenarios(spec, rng, n), execute(world, scenario) -> history,
  judge(spec, scenario, history) -> (violations, probes), shape(scenario, history) -> dict,
  REQUIRED_PROBES, optionally shrink_spec / preflight.

Exit codes: 0 held, 1 violation (VIOLATION line printed), 2 harness error.
"""
import argparse
import re
import importlib
import json
import os
import subprocess
import sys
import time

from . import rng as R
from . import runner, world, minimize, findings

VERIF = os.path.dirname(os.path.dirname(os.path.abspath(__file__)))
TIERS = {
    # worlds, runs per world, determinism-selftest seeds, overall wall cap (s)
    "quick": {"selftest": 6},
    "thorough": {"selftest": 24},
}
COMPONENTS_REAL = [
    "gapic/ generator (schema, templates, formatter) from /repo working tree",
    "emitted client library (clients, transports, pagers, types) imported in-process",
    "google-api-core (retry, timeout, gapic_v1.method, grpc_helpers[_async], operation futures, path_template, rest_streaming)",
    "proto-plus, protobuf (upb)", "requests above HTTPAdapter.send", "google-auth AuthorizedSession (incl. 401 refresh-and-resend)",
    "real OS threads for the callers of threaded scenarios (scheduled by baton passing, pre-empted via sys.settrace)",
    "the emitted transports' own channel construction (create_channel path) in part of C03's runs",
]
COMPONENTS_STUB = [
    "gRPC C-core and sockets (SimChannel / SimAioChannel; api-core's create_channel returns one when the transport builds its own channel)",
    "HTTP connection (SimHTTPAdapter.send)", "credentials (anonymous, or a refreshable self-describing stand-in)",
    "locks created by emitted code while caller threads are scheduled (cooperative SimLock)",
    "server (scripted reference model built from the input descriptors)",
    "clocks: time.sleep/monotonic/time, api-core utcnow, asyncio loop time (SimClock/SimLoop)",
    "retry jitter RNG, uuid4 entropy", "pandoc (pass-through stub: binary not installed)",
    "protoc (descriptors built programmatically and validated in a private DescriptorPool)",
]


def load(prop_id):
    return importlib.import_module(f"dsim.props.{prop_id.lower()}")


# ----------------------------------------------------------------------------- child side

def world_job(job):
    """Runs in a forked child: one world, many runs."""
    mod = load(job["prop"])
    seed = job["seed"]
    t0 = time.perf_counter()
    if "spec" in job:
        spec = job["spec"]
    else:
        spec = mod.gen_spec(R.stream(seed, "spec"))
    res = {"seed": seed, "runs": 0, "violations": [], "probes": {}, "faults": {}, "digests": [],
           "keys": set(), "nontrivial_keys": set(), "interleavings": set(), "sim_seconds": 0.0,
           "fault_free": 0, "faulty": 0, "samples": [], "spec_digest": R.digest(spec)}
    # ambient fault for the GENERATOR: process reuse.  Half of the worlds generate an unrelated decoy request
    # first in the same interpreter (a build worker does); module-level state must not leak into the real one.
    decoy_spec = job.get("decoy_spec")
    if (decoy_spec is not None) or ("spec" not in job and R.stream(seed, "reuse").random() < 0.5):
        res["decoy_generated"] = 1
        try:
            if decoy_spec is not None:
                decoy = decoy_spec
            elif R.stream(seed, "reuse-kind").random() < 0.15:
                # an earlier build of (nearly) the same API FAILED in this interpreter
                from . import grammar
                decoy = grammar.broken_twin(spec)
                res["decoy_failed"] = 1
            elif R.stream(seed, "reuse-kind").random() < 0.55 and (spec.get("service_config") or spec.get("service_yaml")):
                # the same API rebuilt after an edit of its option files (persistent build worker)
                from . import grammar
                decoy = grammar.twin_spec(R.stream(seed, "decoy-twin"), spec)
                res["decoy_twin"] = 1
            else:
                decoy = mod.gen_spec(R.stream(seed, "decoy-spec"))
            decoy_spec = decoy
            import tempfile
            import shutil
            d = tempfile.mkdtemp(prefix="gapic-dsim-decoy-", dir=world.scratch_root())
            try:
                world.generate(decoy, d)
            finally:
                shutil.rmtree(d, ignore_errors=True)
            del decoy
            import gc
            gc.collect()      # freed objects of the decoy generation make room at the same addresses
        except Exception:  # noqa  (the decoy's own fate is judged when it is a world of its own)
            pass
    if spec.get("real_api"):
        res["probes"]["real_api_world"] = 1
    try:
        w = world.World(spec)
    except world.WorldUnbuildable as e:
        res["violations"].append({"rule": "world_unbuildable", "msg": str(e)[:2000], "spec": spec, "scenario": None,
                                  "decoy_spec": decoy_spec})
        return res
    try:
        if "scenarios" in job:
            scenarios = job["scenarios"]
        else:
            scenarios = mod.gen_scenarios(spec, R.stream(seed, "workload"), job["runs"])
            for i, sc in enumerate(scenarios):
                # fault dimension of every REST scenario: what the body of an HTTP error looks like (a front end
                # answers 502/503/504/404 with HTML or nothing, not with a google.rpc JSON error)
                # ambient configuration: the application has switched DEBUG logging on for the library's logger; the
                # emitted logging interceptors / REST logging then serialise every request, reply and error
                if "debug_logging" not in sc and R.stream(seed, "debug-logging", i).random() < 0.12:
                    sc["debug_logging"] = True
                # threaded scenarios: half of them are also pre-empted BETWEEN seams, at line events of emitted code
                if sc.get("threads") and "preempt_p" not in sc:
                    r = R.stream(seed, "preempt", i)
                    sc["preempt_p"] = r.choice([0.0, 0.0, 0.01, 0.03, 0.1])
                if sc.get("client") == "rest" and "http_error_body" not in sc:
                    sc["http_error_body"] = R.stream(seed, "http-error-body", i).choice([None, None, "html", "empty"])
                # fault (version skew): the server is NEWER than the installed message definitions - every JSON reply object
                # carries a field the client has never heard of (property modules opt in: the REST operations client of
                # api-core, which C08's polls go through, rejects such replies by design of api-core)
                if sc.get("client") == "rest" and getattr(mod, "UNKNOWN_REPLY_FIELDS", False) and "unknown_reply_field" not in sc \
                        and R.stream(seed, "unknown-reply-field", i).random() < 0.15:
                    sc["unknown_reply_field"] = True
        res["build_s"] = time.perf_counter() - t0
        seen_rules = set()
        for i, sc in enumerate(scenarios):
            hist = mod.execute(w, sc)
            bad = _bad_returns()
            viol, probes = _judge(mod, spec, sc, hist)
            viol = bad + list(viol)
            res["runs"] += 1
            d = R.digest(hist)
            res["digests"].append(d)
            sh = mod.shape(sc, hist)
            key = R.digest([res["spec_digest"], sh["key"]])[:16]
            res["keys"].add(key)
            if sh["nontrivial"]:
                res["nontrivial_keys"].add(key)
                res["faulty"] += 1
            else:
                res["fault_free"] += 1
            res["interleavings"].add(R.digest(sh["interleaving"])[:16])
            for k, v in sh.get("faults", {}).items():
                res["faults"][k] = res["faults"].get(k, 0) + v
            if sc.get("unknown_reply_field"):
                nu = sum(1 for e in hist if e["k"] == "unknown_field_injected")
                if nu:
                    res["faults"]["reply_with_field_unknown_to_client"] = res["faults"].get("reply_with_field_unknown_to_client", 0) + nu
            if sc.get("http_error_body"):
                nb = sum(1 for e in hist if e["k"] == "attempt_end" and e.get("status") not in ("OK", None) and any(
                    x["k"] == "attempt" and x.get("tr") == "rest" and x.get("n") == e.get("n") and x.get("op") == e.get("op") for x in hist))
                if nb:
                    res["faults"]["http_error_with_non_json_body"] = res["faults"].get("http_error_with_non_json_body", 0) + nb
            if sc.get("debug_logging"):
                res["faults"]["debug_logging_enabled_runs"] = res["faults"].get("debug_logging_enabled_runs", 0) + 1
                res["faults"]["debug_log_records_formatted"] = res["faults"].get("debug_log_records_formatted", 0) + sum(
                    e.get("n", 0) for e in hist if e["k"] == "log_records")
            nr = sum(1 for e in hist if e["k"] == "credentials_refreshed")
            if nr:
                res["faults"]["http_401_credentials_refreshed_and_resent"] = res["faults"].get("http_401_credentials_refreshed_and_resent", 0) + nr
            for e in hist:
                if e["k"] == "threads_done":
                    res["faults"]["thread_switches_at_seams"] = res["faults"].get("thread_switches_at_seams", 0) + e.get("switches", 0)
                    res["faults"]["thread_preemptions_between_seams"] = res["faults"].get("thread_preemptions_between_seams", 0) + e.get("preemptions", 0)
            nc = sum(1 for e in hist if e["k"] == "cancel")
            if nc:
                res["faults"]["caller_task_cancelled"] = res["faults"].get("caller_task_cancelled", 0) + nc
            ne = sum(1 for e in hist if e["k"] == "request_object_edited_in_place")
            if ne:
                res["faults"]["caller_edits_request_object_in_place"] = res["faults"].get("caller_edits_request_object_in_place", 0) + ne
            for k, v in probes.items():
                res["probes"][k] = res["probes"].get(k, 0) + v
            if hist:
                res["sim_seconds"] += max(e["t"] for e in hist)
            if len(res["samples"]) < 1 and sh["nontrivial"] and job.get("want_sample"):
                res["samples"].append({"scenario": sc, "history": _trim_hist(hist)})
            if viol:
                # keep exploring the world (a recorded known finding must not end its coverage), but report
                # each rule at most once per world and stop after three distinct rules
                for v in viol[:1]:
                    if v["rule"] in seen_rules:
                        continue
                    seen_rules.add(v["rule"])
                    v = dict(v)
                    v["spec"] = spec
                    v["scenario"] = sc
                    v["history"] = hist
                    v["decoy_spec"] = decoy_spec
                    # runs of one world share the process (imported library, class-level state of the emitted code):
                    # when the failure needs EARLIER RUNS of the world, the replay must carry them
                    v["prefix"] = scenarios[:i]
                    res["violations"].append(v)
                if len(seen_rules) >= 3:
                    break
    finally:
        w.close()
    res["wall_s"] = time.perf_counter() - t0
    return res


def _judge(mod, spec, sc, hist):
    """Bytes that the client put on the wire, returned or yielded and that do not even PARSE as the message type the
    input descriptors prescribe are the library's failure (a violation), not a crash of the oracle."""
    from google.protobuf.message import DecodeError
    try:
        return mod.judge(spec, sc, hist)
    except DecodeError as e:
        return [{"rule": "undecodable", "op": None, "msg": f"bytes sent, returned or yielded by the client do not parse as the type the "
                 f"input descriptors prescribe: {str(e)[:200]}"}], {}


def _bad_returns():
    from . import engine
    bad = engine.take_bad_returns()
    if not bad:
        return []
    return [{"rule": "not_a_message", "op": None,
             "msg": f"a client method handed the caller an object that is no message: {sorted(set(bad))[:3]}"}]


def _trim_hist(hist, n=40):
    out = []
    for e in hist[:n]:
        e = dict(e)
        for k in ("reqs", "reply", "items", "value"):
            if isinstance(e.get(k), str) and len(e[k]) > 80:
                e[k] = e[k][:80] + "..."
            elif isinstance(e.get(k), list):
                e[k] = [x[:80] for x in e[k][:6]]
        if "md" in e:
            e["md"] = [kv for kv in e["md"] if kv[0] != "x-goog-api-client"]
        out.append(e)
    return out


def replay_job(job):
    """Child: rebuild the world from the explicit spec, run one scenario, judge."""
    mod = load(job["prop"])
    if job.get("scenario") is None and job.get("rule", "").endswith("_accepted"):
        # static pre-flight rule: "the generator must reject this input"
        import tempfile, shutil
        d = tempfile.mkdtemp(prefix="gapic-dsim-rp-", dir=world.scratch_root())
        try:
            world.generate(job["spec"], d)
            return {"violations": [{"rule": job["rule"], "msg": "the input was accepted at generation time"}], "digest": None}
        except Exception:  # noqa
            return {"violations": [], "digest": None}
        finally:
            shutil.rmtree(d, ignore_errors=True)
    if job.get("decoy_spec") is not None:
        import tempfile, shutil
        d = tempfile.mkdtemp(prefix="gapic-dsim-decoy-", dir=world.scratch_root())
        try:
            world.generate(job["decoy_spec"], d)
        except Exception:  # noqa
            pass
        finally:
            shutil.rmtree(d, ignore_errors=True)
    try:
        w = world.World(job["spec"])
    except world.WorldUnbuildable as e:
        return {"violations": [{"rule": "world_unbuildable", "msg": str(e)[:2000]}], "digest": None}
    try:
        if job.get("scenario") is None:
            return {"violations": [], "digest": None}
        for psc in job.get("prefix_scenarios") or ():
            mod.execute(w, psc)          # earlier runs of the same world (same process, same imported library)
            _bad_returns()
        hist = mod.execute(w, job["scenario"])
        bad = _bad_returns()
        viol, _ = _judge(mod, job["spec"], job["scenario"], hist)
        viol = bad + list(viol)
        return {"violations": viol, "digest": R.digest(hist), "history": hist}
    finally:
        w.close()


# ----------------------------------------------------------------------------- parent side

def warm():
    from . import specs
    import tempfile
    import shutil
    d = tempfile.mkdtemp(prefix="gapic-dsim-warm-", dir=world.scratch_root())
    try:
        world.generate(specs.widget_spec(), d)
    finally:
        shutil.rmtree(d, ignore_errors=True)


def digests_for(prop, seeds, runs):
    """Used by the determinism self-test (also from a fresh interpreter)."""
    warm()
    jobs = [{"prop": prop, "seed": s, "runs": runs} for s in seeds]
    out = {}
    for job, st, pay in runner.run_jobs(jobs, world_job, wall=120):
        if st != "ok":
            out[str(job["seed"])] = f"{st}: {str(pay)[-300:]}"
        else:
            out[str(job["seed"])] = R.digest([pay["digests"], pay["spec_digest"]])
    return out


def selftest(prop, seed, n, runs, main_digests):
    """Same seeds: again in this process (other worker count), and in a fresh interpreter under a
    different PYTHONHASHSEED.  Returns (ok, detail)."""
    seeds = sorted(main_digests)[:n]
    again = {}
    jobs = [{"prop": prop, "seed": int(s), "runs": runs} for s in seeds]
    for job, st, pay in runner.run_jobs(jobs, world_job, workers=1 if n <= 3 else 3, wall=120):
        again[str(job["seed"])] = R.digest([pay["digests"], pay["spec_digest"]]) if st == "ok" else st
    env = dict(os.environ)
    env["PYTHONHASHSEED"] = str(1 + (seed % 1000))
    env["VERIF_WORKERS"] = "5"
    p = subprocess.run([sys.executable, os.path.join(VERIF, "check.py"), prop, "--digests",
                        ",".join(seeds), "--runs", str(runs), "--tier", os.environ.get("VERIF_TIER_ACTIVE", "quick")],
                       env=env, capture_output=True, text=True, timeout=900, cwd=VERIF)
    fresh = {}
    for line in p.stdout.splitlines():
        if line.startswith("DIGESTS "):
            fresh = json.loads(line[8:])
    bad = []
    for s in seeds:
        if not (main_digests[s] == again.get(s) == fresh.get(s)):
            bad.append({"seed": s, "main": main_digests[s], "again": again.get(s), "fresh": fresh.get(s)})
    return not bad, {"seeds": len(seeds), "digests_equal": not bad, "mismatches": bad[:3],
                     "fresh_interpreter_hashseed": env["PYTHONHASHSEED"],
                     "stderr": p.stderr[-500:] if bad else ""}


def main(prop_id, argv=None):
    ap = argparse.ArgumentParser()
    ap.add_argument("--tier", default=os.environ.get("VERIF_TIER", "quick"))
    ap.add_argument("--replay")
    ap.add_argument("--digests")
    ap.add_argument("--runs", type=int)
    ap.add_argument("--worlds", type=int)
    ap.add_argument("--no-selftest", action="store_true")
    ap.add_argument("--no-minimize", action="store_true")
    ap.add_argument("--no-evidence", action="store_true")
    ap.add_argument("--shard")          # i/K : run only worlds with index % K == i (internal)
    ap.add_argument("--shard-out")
    args = ap.parse_args(argv)
    _NO_EVIDENCE[0] = bool(args.no_evidence)
    mod = load(prop_id)
    os.environ["VERIF_TIER_ACTIVE"] = args.tier
    seed = int(os.environ.get("VERIF_SEED", "20261002"))
    budget = mod.BUDGET[args.tier]
    runs = args.runs or budget["runs"]
    nworlds = args.worlds or budget["worlds"]

    if args.digests:
        d = digests_for(prop_id, [int(s) for s in args.digests.split(",")], runs)
        print("DIGESTS " + json.dumps(d))
        return 0
    if args.replay:
        return replay(prop_id, mod, args.replay)

    print(f"VERIF_SEED={seed} property={prop_id} tier={args.tier} worlds={nworlds} runs/world={runs}", flush=True)
    t0 = time.perf_counter()
    warm()
    pre = None
    if hasattr(mod, "preflight"):
        pre = mod.preflight()
        if pre.get("violations"):
            return report_violations(prop_id, mod, seed, args, pre["violations"], t0, None, pre)
    jobs = [{"prop": prop_id, "seed": R.derive(seed, "world", i), "runs": runs, "want_sample": i < 3}
            for i in range(nworlds)]
    deadline = t0 + budget["wall_cap"]
    if args.shard:
        import pickle
        i, k = map(int, args.shard.split("/"))
        mine = [j for n, j in enumerate(jobs) if n % k == i]
        res = runner.run_jobs(mine, world_job, wall=budget.get("world_wall", 90), deadline=deadline)
        with open(args.shard_out, "wb") as f:
            pickle.dump(res, f)
        return 0
    shards = getattr(mod, "HASH_SHARDS", None)
    if shards and len(shards) > 1:
        results = run_sharded(prop_id, args, shards, jobs, nworlds, runs)
    else:
        results = runner.run_jobs(jobs, world_job, wall=budget.get("world_wall", 90), deadline=deadline)
    agg = aggregate(results)
    viols = agg.pop("violations")
    if agg["harness_errors"]:
        print(f"HARNESS-ERROR property={prop_id}: {agg['harness_errors'][0][:3000]}")
        write_evidence(prop_id, mod, seed, args.tier, agg, t0, None, pre, violations=0, harness_error=True)
        return 2
    st = None
    if viols:
        # recorded (open) findings print KNOWN-FINDING and do not end the check: the determinism self-test and the
        # reach guards below still apply to everything else the run explored
        rc = report_violations(prop_id, mod, seed, args, viols, t0, agg, pre, st)
        if rc != 0:
            return rc
    if not args.no_selftest:
        main_d = {str(job["seed"]): R.digest([pay["digests"], pay["spec_digest"]])
                  for job, s, pay in results if s == "ok"}
        ok, st = selftest(prop_id, seed, TIERS[args.tier]["selftest"], runs, main_d)
        if not ok:
            print(f"HARNESS-ERROR property={prop_id}: NONDETERMINISM {json.dumps(st)[:1500]}")
            return 2
    # vacuity / reach guards
    judged_worlds = agg["worlds_judged"]
    if judged_worlds < 0.9 * (nworlds - agg["worlds_skipped"]) or judged_worlds == 0:
        print(f"HARNESS-ERROR property={prop_id}: only {judged_worlds}/{nworlds} worlds produced a judged run")
        return 2
    missing = [p for p in mod.REQUIRED_PROBES if not agg["probes"].get(p)]
    write_evidence(prop_id, mod, seed, args.tier, agg, t0, st, pre, violations=0)
    if missing:
        print(f"HARNESS-ERROR property={prop_id}: reach probes stuck at zero: {missing}")
        return 2
    print(f"OK property={prop_id} worlds={agg['worlds_judged']} runs={agg['runs']} "
          f"nontrivial_distinct={agg['distinct_nontrivial']} sim_seconds={agg['sim_seconds']:.0f} "
          f"wall={time.perf_counter() - t0:.1f}s")
    return 0


def run_sharded(prop_id, args, shards, jobs, nworlds, runs):
    """Ambient fault dimension for the GENERATOR process: the sweep is split over sub-processes that
    run under different PYTHONHASHSEED values (world seeds are unchanged, so run digests must not
    depend on the shard)."""
    import pickle
    import tempfile
    k = len(shards)
    procs = []
    tmpd = tempfile.mkdtemp(prefix="gapic-dsim-shards-", dir=world.scratch_root())
    for i, hs in enumerate(shards):
        env = dict(os.environ)
        env["PYTHONHASHSEED"] = str(hs)
        env["VERIF_WORKERS"] = str(max(2, (os.cpu_count() or 4) // k))
        out = os.path.join(tmpd, f"shard{i}.pkl")
        cmd = [sys.executable, os.path.join(VERIF, "check.py"), prop_id, "--tier", args.tier, "--worlds", str(nworlds),
               "--runs", str(runs), "--shard", f"{i}/{k}", "--shard-out", out]
        procs.append((i, out, subprocess.Popen(cmd, env=env, cwd=VERIF, stdout=subprocess.PIPE, stderr=subprocess.PIPE, text=True)))
    merged = {}
    for i, out, p in procs:
        so, se = p.communicate(timeout=3600)
        if p.returncode != 0 or not os.path.exists(out):
            raise RuntimeError(f"shard {i} failed: rc={p.returncode} {se[-2000:]}")
        with open(out, "rb") as f:
            for (job, st, pay) in pickle.load(f):
                merged[job["seed"]] = (job, st, pay)
    import shutil
    shutil.rmtree(tmpd, ignore_errors=True)
    return [merged[j["seed"]] for j in jobs if j["seed"] in merged]


def aggregate(results):
    agg = {"worlds_judged": 0, "worlds_skipped": 0, "runs": 0, "probes": {}, "faults": {}, "keys": set(),
           "nontrivial_keys": set(), "interleavings": set(), "sim_seconds": 0.0, "fault_free": 0, "faulty": 0,
           "samples": [], "violations": [], "harness_errors": [], "world_wall": 0.0}
    for job, st, pay in results:
        if st == "skipped":
            agg["worlds_skipped"] += 1
            continue
        if st != "ok":
            agg["harness_errors"].append(f"world seed {job['seed']}: {st}: {pay}")
            continue
        if pay["runs"] > 0:
            agg["worlds_judged"] += 1
        agg["runs"] += pay["runs"]
        agg["sim_seconds"] += pay["sim_seconds"]
        agg["fault_free"] += pay["fault_free"]
        agg["faulty"] += pay["faulty"]
        agg["world_wall"] += pay.get("wall_s", 0.0)
        agg["faults"]["generator_process_reuse"] = agg["faults"].get("generator_process_reuse", 0) + pay.get("decoy_generated", 0)
        agg["faults"]["generator_reuse_after_failed_generation"] = agg["faults"].get("generator_reuse_after_failed_generation", 0) + pay.get("decoy_failed", 0)
        agg["faults"]["generator_reuse_same_api_edited_options"] = agg["faults"].get("generator_reuse_same_api_edited_options", 0) + pay.get("decoy_twin", 0)
        for k in ("keys", "nontrivial_keys", "interleavings"):
            agg[k] |= pay[k]
        for k in ("probes", "faults"):
            for kk, v in pay[k].items():
                agg[k][kk] = agg[k].get(kk, 0) + v
        if len(agg["samples"]) < 3:
            agg["samples"].extend(pay["samples"])
        for v in pay["violations"]:
            v["world_seed"] = job["seed"]
            agg["violations"].append(v)
    agg["distinct"] = len(agg["keys"])
    agg["distinct_nontrivial"] = len(agg["nontrivial_keys"])
    agg["distinct_interleavings"] = len(agg["interleavings"])
    return agg


def report_violations(prop_id, mod, seed, args, viols, t0, agg, pre, st=None):
    known = findings.load()
    new, printed = 0, set()
    os.makedirs(os.path.join(VERIF, "out", "replays"), exist_ok=True)
    # group by rule; minimise one representative per rule (at most 3 rules)
    by_rule = {}

    def sig_of(v, spec, sc):
        # the generic signatures look at the FAILURE TEXT as well as at the spec, so they go first; a property module's
        # own signature of an un-importable world sees the spec only and must not claim somebody else's failure
        s0 = findings.generic_signature(spec, v["rule"], v.get("msg"))
        if s0 is None:
            s0 = _signature(mod, spec, sc, v["rule"], v.get("op"))
        return s0
    for v in viols:
        # group by (rule, shape signature of THIS violation) so that a recorded finding can never hide a
        # different violation of the same rule
        s0 = sig_of(v, v["spec"], v.get("scenario"))
        v["_sig0"] = s0
        gk = v["rule"] + "|" + s0 + ("|" + re.sub(r"\d+", "N", str(v.get("msg")))[:70] if v["rule"] == "world_unbuildable" else "")
        by_rule.setdefault(gk, []).append(v)
    groups = sorted(by_rule.items(), key=lambda kv: findings.match(known, prop_id, kv[1][0]["rule"], kv[1][0]["_sig0"]) is not None)
    for gk, vs in groups[:6]:
        v = vs[0]
        rule = v["rule"]
        spec, sc = v["spec"], v.get("scenario")
        kf0 = findings.match(known, prop_id, rule, v["_sig0"])
        if kf0 is not None:
            key = (prop_id, kf0["signature"])
            if key not in printed:
                printed.add(key)
                print(f"KNOWN-FINDING: property={prop_id} {kf0['description']}")
            continue
        if not args.no_minimize and not rule.endswith("_accepted"):
            # ("<something invalid> was accepted" cases are enumerated by hand and already minimal: shrinking the input of
            # an acceptance only removes the invalid part)
            spec, sc, info = minimize.minimise(prop_id, mod, spec, sc, rule, decoy=v.get("decoy_spec"), prefix=v.get("prefix"))
            if v.get("decoy_spec") is not None and info.get("needs_decoy") is False:
                v["decoy_spec"] = None
        else:
            info = {"minimised": False}
        world_replay = None
        if info.get("reproduced") is False and sc is not None and v.get("world_seed") is not None:
            # Neither the scenario alone nor the scenario after the earlier runs of its world fails again: the failure
            # depends on the exact state of the process (e.g. an object address that is recycled).  The whole world
            # job is a pure function of (world seed, runs, tier) in a child forked from a warmed parent: use it.
            wj = {"prop": prop_id, "seed": v["world_seed"], "runs": args.runs or mod.BUDGET[args.tier]["runs"]}
            _, st_w, pay_w = runner.run_one(world_job, wj, wall=mod.BUDGET[args.tier].get("world_wall", 90) + 60)
            again = st_w == "ok" and any(x["rule"] == rule for x in pay_w["violations"])
            info["reproduced_by_whole_world"] = bool(again)
            if again:
                world_replay = {"world_seed": v["world_seed"], "runs": wj["runs"], "tier": args.tier}
        sig = sig_of(v, spec, sc)
        kf = findings.match(known, prop_id, rule, sig)
        if kf is not None:
            key = (prop_id, kf["signature"])
            if key not in printed:
                printed.add(key)
                print(f"KNOWN-FINDING: property={prop_id} {kf['description']}")
            continue
        new += 1
        rp = {"property": prop_id, "rule": rule, "signature": sig, "seed": seed, "world_seed": v.get("world_seed"),
              "message": v.get("msg"), "op": v.get("op"), "spec": spec, "scenario": sc, "minimisation": info,
              "decoy_spec": v.get("decoy_spec"), "world_replay": world_replay,
              "prefix_scenarios": info.get("prefix_scenarios") if info.get("minimised") is not False else (v.get("prefix") or None),
              "history": v.get("history") if info.get("minimised") is False else info.get("history")}
        name = f"{prop_id}-{seed}-{R.digest([spec, sc, rule])[:8]}.json"
        path = os.path.join(VERIF, "out", "replays", name)
        with open(path, "w") as f:
            json.dump(rp, f, indent=1, default=_json_default)
        # the replay file is proved the way a reader will use it: `check.py <ID> --replay <file>` in a FRESH interpreter.
        # A failure that depends on the state of the process (heap addresses, ...) may reproduce inside this process and not
        # there: then the file falls back to replaying the whole world job, and says so.
        if sc is not None and not args.no_minimize:
            ok = _replay_in_fresh_interpreter(prop_id, path, rule)
            if not ok and rp.get("world_replay") is None and v.get("world_seed") is not None:
                rp["world_replay"] = {"world_seed": v["world_seed"], "runs": args.runs or mod.BUDGET[args.tier]["runs"], "tier": args.tier}
                rp["minimisation"]["fell_back_to_whole_world"] = True
                with open(path, "w") as f:
                    json.dump(rp, f, indent=1, default=_json_default)
                ok = _replay_in_fresh_interpreter(prop_id, path, rule)
            rp["minimisation"]["replay_reproduces_in_fresh_interpreter"] = bool(ok)
            with open(path, "w") as f:
                json.dump(rp, f, indent=1, default=_json_default)
        print(f"VIOLATION property={prop_id} replay={path}")
        print(f"  rule={rule} {str(v.get('msg'))[:600]}")
    if agg is not None:
        agg["known_findings_seen"] = sorted(k[1] for k in printed)
        agg2 = dict(agg)
    else:
        agg2 = aggregate([])
    write_evidence(prop_id, mod, seed, args.tier, agg2, t0, st, pre, violations=new)
    return 1 if new else 0


def _replay_in_fresh_interpreter(prop_id, path, rule):
    try:
        p = subprocess.run([sys.executable, os.path.join(VERIF, "check.py"), prop_id, "--replay", path],
                           capture_output=True, text=True, timeout=600, cwd=VERIF)
    except Exception:  # noqa
        return False
    return p.returncode == 1 and f"rule={rule}" in p.stdout


def _signature(mod, spec, sc, rule, op_id):
    if not hasattr(mod, "signature"):
        return rule
    try:
        return mod.signature(spec, sc, rule, op_id)
    except TypeError:
        return mod.signature(spec, sc, rule)


def _json_default(o):
    if isinstance(o, (set, frozenset)):
        return sorted(o)
    if isinstance(o, bytes):
        return {"__b": o.hex()}
    return str(o)


def replay(prop_id, mod, path):
    with open(path) as f:
        rp = json.load(f)
    warm()
    if rp.get("world_replay"):
        # the failure needs the exact process state of its world: replay the whole world job (seed -> spec -> runs)
        wr = rp["world_replay"]
        os.environ["VERIF_TIER_ACTIVE"] = wr.get("tier", "quick")
        _, st, pay = runner.run_one(world_job, {"prop": prop_id, "seed": wr["world_seed"], "runs": wr["runs"]}, wall=300)
    else:
        job = {"prop": prop_id, "spec": rp["spec"], "scenario": rp.get("scenario"), "rule": rp.get("rule", ""),
               "decoy_spec": rp.get("decoy_spec"), "prefix_scenarios": rp.get("prefix_scenarios")}
        _, st, pay = runner.run_one(replay_job, job, wall=300 if rp.get("prefix_scenarios") else 120)
    if st != "ok":
        print(f"HARNESS-ERROR property={prop_id}: replay {st}: {str(pay)[-2000:]}")
        return 2
    same = [v for v in pay["violations"] if v["rule"] == rp["rule"]]
    if same:
        print(f"VIOLATION property={prop_id} replay={path}")
        print(f"  rule={same[0]['rule']} {str(same[0].get('msg'))[:800]}")
        return 1
    if pay["violations"]:
        print(f"VIOLATION property={prop_id} replay={path}")
        print(f"  (different rule) rule={pay['violations'][0]['rule']} {str(pay['violations'][0].get('msg'))[:800]}")
        return 1
    print(f"OK property={prop_id} replay {path} does not violate on the current tree")
    return 0


_NO_EVIDENCE = [False]


def write_evidence(prop_id, mod, seed, tier, agg, t0, st, pre, violations, harness_error=False):
    if _NO_EVIDENCE[0]:
        return          # --no-evidence: soaks and regression runs leave the committed evidence alone
    wall = time.perf_counter() - t0
    runs = agg.get("runs", 0)
    cov = {
        "known_findings_seen": agg.get("known_findings_seen", []),
        "evaluations": runs,
        "distinct_nontrivial": agg.get("distinct_nontrivial", 0),
        "rule": getattr(mod, "COVERAGE_RULE", "") or (
            "cases = simulated runs (one seeded scenario on one generated world); a run is non-trivial when at "
            "least one fault/retry/second page/pending poll/concurrent actor occurred (per-property shape()); "
            "distinct = distinct (world spec digest, scenario+history shape key)"),
        "samples": agg.get("samples", [])[:3] or [{"note": "no sample captured"}],
        "worlds": agg.get("worlds_judged", 0),
        "worlds_skipped_by_wall_cap": agg.get("worlds_skipped", 0),
        "distinct_cases": agg.get("distinct", 0),
        "distinct_interleavings": agg.get("distinct_interleavings", 0),
        "interleaving_measure": "distinct sequences of (event kind, op) over the recorded history",
        "simulated_seconds": round(agg.get("sim_seconds", 0.0), 3),
        "runs_per_hour": int(runs / wall * 3600) if wall > 0 else 0,
        "seeds_per_hour": int(agg.get("worlds_judged", 0) / wall * 3600) if wall > 0 else 0,
        "fault_free_runs": agg.get("fault_free", 0),
        "faulty_runs": agg.get("faulty", 0),
        "faults_fired": agg.get("faults", {}),
        "reach_probes": agg.get("probes", {}),
        "required_probes": list(getattr(mod, "REQUIRED_PROBES", [])),
        "determinism_selftest": st or {"skipped": True},
        "components_real": COMPONENTS_REAL,
        "components_stub": COMPONENTS_STUB,
        "technique": "deterministic simulation with fault injection (seeded search over fault/latency/jitter scripts on a virtual clock)",
    }
    if pre is not None:
        cov["static_preflight"] = {k: v for k, v in pre.items() if k != "violations"}
    ev = {"property_id": prop_id, "tier": tier, "seed": seed, "level": "exploration", "coverage": cov,
          "assumptions": list(getattr(mod, "ASSUMPTIONS", [])) + [
              "google-api-core's documented retry/timeout algorithm is the reference for how a configured policy is executed",
              "pandoc is stubbed (binary absent): docstring conversion is not exercised",
              "descriptors are built programmatically (no protoc) and validated by a private DescriptorPool",
          ],
          "wall_s": round(wall, 2), "violations": violations}
    if harness_error:
        ev["coverage"]["harness_error"] = True
    os.makedirs(os.path.join(VERIF, "evidence"), exist_ok=True)
    with open(os.path.join(VERIF, "evidence", f"{prop_id}.json"), "w") as f:
        json.dump(ev, f, indent=1, default=_json_default)
