"""Greedy delta-debugging of (spec, scenario) while the SAME rule of the SAME property keeps
failing.  Every candidate is executed in a fresh forked child that rebuilds the world from the
candidate spec with the real generator."""
import copy
import time

from . import runner, rng as R


def _valid(spec):
    """A candidate must still be a spec the descriptor pool accepts (else it is outside the grammar)."""
    from . import protos
    try:
        files, gen = protos.lower(spec)
        protos.build_pool(files)
        if not gen:
            return False
    except Exception:  # noqa
        return False
    # string-valued references that no descriptor pool checks: an operation_info type must still EXIST in the candidate
    # (a dangling name "fails to build" too, with the very same KeyError text as a genuine resolution defect)
    names = set()

    def walk(prefix, msgs):
        for m in msgs:
            names.add(prefix + "." + m["name"])
            walk(prefix + "." + m["name"], m.get("messages", ()))
    for fs in spec["files"]:
        walk(fs["package"], fs.get("messages", ()))
    for fs in spec["files"]:
        for sv in fs.get("services", ()):
            for m in sv["methods"]:
                for t in (m.get("lro") or {}).values():
                    if not isinstance(t, str) or not t or t.startswith("google."):
                        continue
                    if t not in names and fs["package"] + "." + t not in names:
                        return False
    return True


_MSG = {}


_DECOY = [None]
_PREFIX = [None]


def _fails(prop_id, spec, sc, rule):
    from . import driver
    if not _valid(spec):
        return False, None
    _, st, pay = runner.run_one(driver.replay_job, {"prop": prop_id, "spec": spec, "scenario": sc, "rule": rule,
                                                    "decoy_spec": _DECOY[0], "prefix_scenarios": _PREFIX[0]}, wall=90)
    if st != "ok":
        return False, None
    for v in pay["violations"]:
        if v["rule"] == rule:
            import re
            if rule == "world_unbuildable":
                # keep the same failure (same exception text), not just any unbuildable world
                key = re.sub(r"\d+", "N", str(v.get("msg")))[:80]
                if _MSG.setdefault("w", key) != key:
                    continue
            else:
                # a rule that reports an exception keeps the exception CLASS: "call failed with AttributeError" must not
                # shrink into "call failed because the method no longer exists"
                mm = re.search(r"\braised? (\w+)", str(v.get("msg")))
                key = mm.group(1) if mm else None
                if _MSG.setdefault("exc:" + rule, key) != key:
                    continue
            return True, pay
    return False, pay


def _ddmin_list(items, test):
    """Remove elements while test(items) stays true."""
    n = 2
    while len(items) >= 1 and n <= max(2, len(items)) * 2:
        chunk = max(1, len(items) // n)
        removed = False
        i = 0
        while i < len(items):
            cand = items[:i] + items[i + chunk:]
            if test(cand):
                items = cand
                removed = True
            else:
                i += chunk
        if not removed:
            if chunk == 1:
                break
            n *= 2
    return items


def minimise(prop_id, mod, spec, sc, rule, budget_s=150, max_tests=120, decoy=None, prefix=None):
    t0 = time.perf_counter()
    tests = [0]
    _MSG.clear()
    _DECOY[0] = None
    _PREFIX[0] = None
    needs_decoy = None
    if decoy is not None:
        # does the failure need the earlier generation in the same process?
        if _fails(prop_id, spec, sc, rule)[0]:
            needs_decoy = False
        else:
            needs_decoy = True
            _DECOY[0] = decoy
        _MSG.clear()
    spec = copy.deepcopy(spec)
    sc = copy.deepcopy(sc)

    def ok(s, c):
        if tests[0] >= max_tests or time.perf_counter() - t0 > budget_s:
            return False
        tests[0] += 1
        return _fails(prop_id, s, c, rule)[0]

    # 0. must reproduce, twice with identical digest
    f1, p1 = _fails(prop_id, spec, sc, rule)
    needs_prefix = False
    if not f1 and prefix and sc is not None:
        # the failure may need EARLIER RUNS of the same world (state kept by the emitted library between calls
        # of different clients): replay them first, then shrink that list
        if decoy is not None and _DECOY[0] is None:
            _DECOY[0] = decoy
            needs_decoy = True
        _PREFIX[0] = list(prefix)
        f1, p1 = _fails(prop_id, spec, sc, rule)
        needs_prefix = f1
        if f1:
            def test_prefix(lst):
                if tests[0] >= max_tests or time.perf_counter() - t0 > budget_s:
                    return False
                tests[0] += 1
                old = _PREFIX[0]
                _PREFIX[0] = lst
                r = _fails(prop_id, spec, sc, rule)[0]
                if not r:
                    _PREFIX[0] = old
                return r
            _PREFIX[0] = _ddmin_list(list(_PREFIX[0]), test_prefix)
    f2, p2 = _fails(prop_id, spec, sc, rule)
    if not (f1 and f2):
        return spec, sc, {"minimised": False, "reproduced": False}
    info = {"minimised": True, "reproduced": True, "deterministic": p1.get("digest") == p2.get("digest"),
            "needs_decoy": needs_decoy, "needs_earlier_runs": needs_prefix,
            "prefix_scenarios": copy.deepcopy(_PREFIX[0]) if needs_prefix else None}
    if sc is not None:
        # 1. drop actors / operations
        def with_ops(flat):
            c = copy.deepcopy(sc)
            keep = {o for o in flat}
            for a in c["actors"]:
                a["ops"] = [o for o in a["ops"] if o["id"] in keep]
            c["actors"] = [a for a in c["actors"] if a["ops"]]
            return c
        flat = [o["id"] for a in sc["actors"] for o in a["ops"]]
        flat = _ddmin_list(flat, lambda f: bool(f) and ok(spec, with_ops(f)))
        sc = with_ops(flat)
        # 2. simplify per-op scripts: drop server outcomes, zero latencies, default jitter
        for a in sc["actors"]:
            for o in a["ops"]:
                for key in ("server", "pages", "polls"):
                    if isinstance(o.get(key), list) and len(o[key]) > 1:
                        # the LAST scripted outcome is how the call finally ends ("faults stop"): it is never dropped,
                        # or the shrunk scenario would fail for a different reason under the same rule name
                        tail = [o[key][-1]] if key == "server" else []
                        def test(lst, o=o, key=key, tail=tail):
                            old = o[key]
                            o[key] = lst + tail
                            r = bool(o[key]) and ok(spec, sc)
                            if not r:
                                o[key] = old
                            return r
                        head = list(o[key][:-1]) if tail else list(o[key])
                        res = _ddmin_list(head, test)
                        o[key] = res + tail
                if o.get("jitter"):
                    old = o["jitter"]
                    o["jitter"] = []
                    if not ok(spec, sc):
                        o["jitter"] = old
                for out in (o.get("server") or []):
                    if out.get("lat"):
                        old = out["lat"]
                        out["lat"] = 0.0
                        if not ok(spec, sc):
                            out["lat"] = old
                if o.get("request"):
                    old = o["request"]
                    o["request"] = {}
                    if not ok(spec, sc):
                        o["request"] = old
        if sc.get("cancels"):
            old = sc["cancels"]
            sc["cancels"] = []
            if not ok(spec, sc):
                sc["cancels"] = old
    # 3. shrink the spec: drop methods not used, then unused messages, option files
    used = set()
    if sc is not None:
        used = {(o["service"], o["method"]) for a in sc["actors"] for o in a["ops"]}
        for psc in _PREFIX[0] or ():
            used |= {(o["service"], o["method"]) for a in psc["actors"] for o in a["ops"]}
    def prune_option_files(sp):
        """Option files must not name methods that no longer exist (that would be a different failure)."""
        alive = {f"{fs['package']}.{s['name']}.{m['name']}" for fs in sp["files"] for s in fs.get("services", ()) for m in s["methods"]}
        y = sp.get("service_yaml")
        if y and (y.get("publishing") or {}).get("method_settings"):
            y["publishing"]["method_settings"] = [e for e in y["publishing"]["method_settings"] if e["selector"] in alive]
        if y and (y.get("http") or {}).get("rules"):
            y["http"]["rules"] = [r for r in y["http"]["rules"] if r["selector"].startswith("google.") or r["selector"] in alive]
        c = sp.get("service_config")
        if c:
            for e in c.get("methodConfig", []):
                if "name" in e:
                    e["name"] = [n for n in e["name"] if f"{n.get('service')}.{n.get('method')}" in alive]
            c["methodConfig"] = [e for e in c["methodConfig"] if e.get("name") or "name" not in e]

    for fs in spec["files"]:
        for s in fs.get("services", ()):
            keep = [m for m in s["methods"] if (s["name"], m["name"]) in used]
            if used and keep and len(keep) < len(s["methods"]):
                cand = copy.deepcopy(spec)
                for fs2 in cand["files"]:
                    for s2 in fs2.get("services", ()):
                        if fs2["name"] == fs["name"] and s2["name"] == s["name"]:
                            s2["methods"] = copy.deepcopy(keep)
                prune_option_files(cand)
                if ok(cand, sc):
                    spec.clear()
                    spec.update(cand)
                    break
    for fs in spec["files"]:
        svcs = fs.get("services")
        if svcs and len(svcs) > 1:
            keep = [s for s in svcs if any((s["name"], m["name"]) in used for m in s["methods"])]
            if keep and len(keep) < len(svcs):
                fs["services"] = keep
                if not ok(spec, sc):
                    fs["services"] = svcs
    for key in ("service_yaml", "service_config"):
        if spec.get(key) is not None:
            old = spec[key]
            spec[key] = None
            if not ok(spec, sc):
                spec[key] = old
    for fs in spec["files"]:
        msgs = fs.get("messages") or []
        i = 0
        while i < len(msgs):
            cand = msgs[:i] + msgs[i + 1:]
            fs["messages"] = cand
            if ok(spec, sc):
                msgs = cand
            else:
                fs["messages"] = msgs
                i += 1
        fs["messages"] = msgs
    f, p = _fails(prop_id, spec, sc, rule)
    info.update({"tests": tests[0], "seconds": round(time.perf_counter() - t0, 1), "final_reproduces": f,
                 "history": (p or {}).get("history")})
    return spec, sc, info
