"""Field valuations: JSON-able descriptions of message contents, independent of any generated
class.  A valuation is a dict {proto_field_name: v}:

  scalar -> int / bool / str / float (only dyadic rationals, exact in float32 and in JSON)
  bytes  -> {"__b": "<hex>"}
  enum   -> int (number)
  message-> nested valuation dict
  repeated -> list of the above
  map    -> {"__map": [[k, v], ...]}   (insertion order = list order; keys unique)

Fields without presence are only listed when non-default, so a valuation is canonical.
Two consumers: ``to_dynamic`` (oracle side: dynamic message over the INPUT descriptors) and
``to_native`` (caller side: plain python dict keyed by proto field names that a user could pass as
``request={...}``; well-known leaf types are given as pb2 instances).
"""
from google.protobuf import descriptor as _d
from google.protobuf import duration_pb2, field_mask_pb2, struct_pb2, timestamp_pb2, wrappers_pb2

FD = _d.FieldDescriptor

_INT_RANGES = {
    FD.TYPE_INT32: (-2**31, 2**31 - 1), FD.TYPE_SINT32: (-2**31, 2**31 - 1), FD.TYPE_SFIXED32: (-2**31, 2**31 - 1),
    FD.TYPE_UINT32: (0, 2**32 - 1), FD.TYPE_FIXED32: (0, 2**32 - 1),
    FD.TYPE_INT64: (-2**63, 2**63 - 1), FD.TYPE_SINT64: (-2**63, 2**63 - 1), FD.TYPE_SFIXED64: (-2**63, 2**63 - 1),
    FD.TYPE_UINT64: (0, 2**64 - 1), FD.TYPE_FIXED64: (0, 2**64 - 1),
}

WKT_LEAF = {
    "google.protobuf.Timestamp": timestamp_pb2.Timestamp,
    "google.protobuf.Duration": duration_pb2.Duration,
    "google.protobuf.FieldMask": field_mask_pb2.FieldMask,
    "google.protobuf.Int32Value": wrappers_pb2.Int32Value,
    "google.protobuf.UInt32Value": wrappers_pb2.UInt32Value,
    "google.protobuf.StringValue": wrappers_pb2.StringValue,
    "google.protobuf.Value": struct_pb2.Value,
}

# well-known types whose proto3 JSON form is a plain string / primitive (not an object)
WKT_LEAF_JSON = {"google.protobuf.Timestamp", "google.protobuf.Duration", "google.protobuf.FieldMask",
                 "google.protobuf.Int32Value", "google.protobuf.UInt32Value", "google.protobuf.StringValue",
                 "google.protobuf.Int64Value", "google.protobuf.UInt64Value", "google.protobuf.BoolValue",
                 "google.protobuf.FloatValue", "google.protobuf.DoubleValue", "google.protobuf.BytesValue",
                 "google.protobuf.Value"}

# message types never filled by the random valuation generator (their JSON form needs a type registry)
UNGENERATED = {"google.protobuf.Any", "google.protobuf.Struct", "google.protobuf.ListValue"}


def _leaf_type(fd):
    mt = fd.message_type
    if mt.GetOptions().map_entry:
        v = mt.fields_by_name["value"]
        return v.message_type if v.type == FD.TYPE_MESSAGE else mt
    return mt


_WORDS = ["a", "b7", "x-y", "wid get", "é", "q&a=1", "50%", "p/q", "Zed", "long" * 5, "~t.", "k+v"]


def rand_string(rng, tag=None):
    s = rng.choice(_WORDS)
    if rng.random() < 0.3:
        s += rng.choice(_WORDS)
    return s if tag is None else f"{s}#{tag}"


def _is_map(fd):
    return (fd.type == FD.TYPE_MESSAGE and fd.label == FD.LABEL_REPEATED
            and fd.message_type.GetOptions().map_entry)


def _has_presence(fd):
    if fd.label == FD.LABEL_REPEATED:
        return False
    return fd.type == FD.TYPE_MESSAGE or fd.containing_oneof is not None


def rand_scalar(rng, fd, nonzero=True):
    t = fd.type
    if t in _INT_RANGES:
        lo, hi = _INT_RANGES[t]
        c = rng.random()
        if c < 0.6:
            v = rng.randint(max(lo, -9), min(hi, 99))
        elif c < 0.8:
            v = rng.choice([lo, hi, hi - 1, lo + 1])
        else:
            v = rng.randint(lo, hi)
        if nonzero and v == 0:
            v = 7
        return v
    if t == FD.TYPE_BOOL:
        return True if nonzero else rng.random() < 0.5
    if t == FD.TYPE_STRING:
        return rand_string(rng)
    if t == FD.TYPE_BYTES:
        return {"__b": bytes(rng.randrange(256) for _ in range(rng.randint(1, 5))).hex()}
    if t in (FD.TYPE_DOUBLE, FD.TYPE_FLOAT):
        v = rng.randint(-2000, 2000) / 8.0
        if nonzero and v == 0:
            v = 0.5
        return v
    if t == FD.TYPE_ENUM:
        nums = [v.number for v in fd.enum_type.values]
        nz = [n for n in nums if n != 0] or nums
        return rng.choice(nz if nonzero else nums)
    raise AssertionError(t)


# set (and reset) by a caller that wants google.protobuf.Struct fields filled too (C05's flattened-argument generator)
GENERATE_STRUCT = [False]


def rand_valuation(rng, desc, depth=0, max_depth=3, p_field=0.6, skip=()):
    """Random canonical valuation of message descriptor ``desc``."""
    val = {}
    chosen_oneof = {}
    for od in desc.oneofs:
        real = [f for f in od.fields]
        if len(real) == 1 and od.name.startswith("_"):
            continue  # synthetic (proto3 optional)
        if rng.random() < 0.7:
            chosen_oneof[od.name] = rng.choice(real).name
    for fd in desc.fields:
        if fd.name in skip:
            continue
        oo = fd.containing_oneof
        synthetic = oo is not None and len(oo.fields) == 1 and oo.name.startswith("_")
        if oo is not None and not synthetic:
            if chosen_oneof.get(oo.name) != fd.name:
                continue
        elif rng.random() > p_field:
            continue
        if fd.type == FD.TYPE_MESSAGE and _leaf_type(fd).full_name in UNGENERATED and not (
                GENERATE_STRUCT[0] and _leaf_type(fd).full_name == "google.protobuf.Struct" and not _is_map(fd)):
            continue
        if _is_map(fd):
            kf = fd.message_type.fields_by_name["key"]
            vf = fd.message_type.fields_by_name["value"]
            n = rng.randint(1, 3)
            keys, pairs = set(), []
            for _ in range(n):
                k = rand_scalar(rng, kf, nonzero=False)
                kk = repr(k)
                if kk in keys:
                    continue
                keys.add(kk)
                if vf.type == FD.TYPE_MESSAGE:
                    v = _rand_msg(rng, vf, depth, max_depth)
                else:
                    v = rand_scalar(rng, vf, nonzero=False)
                pairs.append([k, v])
            val[fd.name] = {"__map": pairs}
        elif fd.label == FD.LABEL_REPEATED:
            n = rng.randint(1, 3)
            if fd.type == FD.TYPE_MESSAGE:
                if depth >= max_depth:
                    continue
                val[fd.name] = [_rand_msg(rng, fd, depth, max_depth) for _ in range(n)]
            else:
                val[fd.name] = [rand_scalar(rng, fd, nonzero=False) for _ in range(n)]
        elif fd.type == FD.TYPE_MESSAGE:
            if depth >= max_depth:
                continue
            val[fd.name] = _rand_msg(rng, fd, depth, max_depth)
        else:
            presence = oo is not None
            val[fd.name] = rand_scalar(rng, fd, nonzero=not presence)
    return val


def _rand_msg(rng, fd, depth, max_depth):
    fn = fd.message_type.full_name
    if fn == "google.protobuf.Timestamp":
        return {"seconds": rng.randint(1, 2_000_000_000), "nanos": rng.choice([0, 1000, 999999000, 123456000])}
    if fn == "google.protobuf.Duration":
        return {"seconds": rng.randint(1, 100000), "nanos": rng.choice([0, 500000000])}
    if fn in ("google.protobuf.Int32Value", "google.protobuf.UInt32Value"):
        return {"value": rng.randint(1, 50)}
    if fn == "google.protobuf.StringValue":
        return {"value": rand_string(rng)}
    if fn == "google.protobuf.Value":
        return rng.choice([{"string_value": rand_string(rng)}, {"number_value": rng.randint(-50, 50) / 4.0}, {"bool_value": True}])
    if fn == "google.protobuf.Struct":
        return {"fields": {"__map": [[k, rng.choice([{"string_value": rand_string(rng)}, {"number_value": rng.randint(-50, 50) / 4.0}, {"bool_value": True}])]
                                     for k in rng.sample(["a", "b", "row", "k 1"], rng.randint(1, 2))]}}
    if fn == "google.protobuf.FieldMask":
        return {"paths": [rng.choice(["name", "size", "a.b", "tags"]) for _ in range(rng.randint(1, 2))]}
    return rand_valuation(rng, fd.message_type, depth + 1, max_depth, p_field=0.5)


def presence_only_valuation(rng, desc):
    """Only fields WITH presence, all at their default value (optional scalars 0/''/False, singular
    messages empty, a oneof member at its default): python-falsy everywhere, yet not an empty request."""
    val = {}
    seen_oneof = set()
    for fd in desc.fields:
        if fd.label == FD.LABEL_REPEATED or rng.random() < 0.4:
            continue
        oo = fd.containing_oneof
        if oo is None and fd.type != FD.TYPE_MESSAGE:
            continue
        if oo is not None:
            if oo.name in seen_oneof:
                continue
            seen_oneof.add(oo.name)
        if fd.type == FD.TYPE_MESSAGE:
            if fd.message_type.full_name in WKT_LEAF or fd.message_type.full_name in UNGENERATED:
                continue
            val[fd.name] = {}
        elif fd.type == FD.TYPE_STRING:
            val[fd.name] = ""
        elif fd.type == FD.TYPE_BYTES:
            val[fd.name] = {"__b": ""}
        elif fd.type == FD.TYPE_BOOL:
            val[fd.name] = False
        elif fd.type in (FD.TYPE_DOUBLE, FD.TYPE_FLOAT):
            val[fd.name] = 0.0
        else:
            val[fd.name] = 0
    return val


def _conv_scalar(fd, v):
    if isinstance(v, dict) and "__b" in v:
        return bytes.fromhex(v["__b"])
    if fd.type in (FD.TYPE_DOUBLE, FD.TYPE_FLOAT):
        return float(v)
    return v


def fill_dynamic(msg, val):
    """Set dynamic message ``msg`` (built over the input descriptors) from a valuation."""
    desc = msg.DESCRIPTOR
    for name, v in val.items():
        fd = desc.fields_by_name[name]
        if _is_map(fd):
            vf = fd.message_type.fields_by_name["value"]
            kf = fd.message_type.fields_by_name["key"]
            tgt = getattr(msg, name)
            for k, x in v["__map"]:
                k = _conv_scalar(kf, k)
                if vf.type == FD.TYPE_MESSAGE:
                    fill_dynamic(tgt[k], x)
                    if not x:
                        tgt[k].SetInParent()
                else:
                    tgt[k] = _conv_scalar(vf, x)
        elif fd.label == FD.LABEL_REPEATED:
            tgt = getattr(msg, name)
            for x in v:
                if fd.type == FD.TYPE_MESSAGE:
                    fill_dynamic(tgt.add(), x)
                else:
                    tgt.append(_conv_scalar(fd, x))
        elif fd.type == FD.TYPE_MESSAGE:
            sub = getattr(msg, name)
            sub.SetInParent()
            fill_dynamic(sub, v)
        else:
            setattr(msg, name, _conv_scalar(fd, v))
    return msg


def to_dynamic(codec, full_name, val):
    return fill_dynamic(codec.cls(full_name)(), val)


def to_native(desc, val):
    """Plain python structure a user would write: dict keyed by proto names; WKT leaves as pb2."""
    out = {}
    for name, v in val.items():
        fd = desc.fields_by_name[name]
        if _is_map(fd):
            vf = fd.message_type.fields_by_name["value"]
            kf = fd.message_type.fields_by_name["key"]
            out[name] = {_conv_scalar(kf, k): (_native_msg(vf, x) if vf.type == FD.TYPE_MESSAGE else _conv_scalar(vf, x))
                         for k, x in v["__map"]}
        elif fd.label == FD.LABEL_REPEATED:
            out[name] = [(_native_msg(fd, x) if fd.type == FD.TYPE_MESSAGE else _conv_scalar(fd, x)) for x in v]
        elif fd.type == FD.TYPE_MESSAGE:
            out[name] = _native_msg(fd, v)
        else:
            out[name] = _conv_scalar(fd, v)
    return out


def _native_msg(fd, v):
    fn = fd.message_type.full_name
    if fn in WKT_LEAF:
        return WKT_LEAF[fn](**v)
    if fn == "google.protobuf.Struct":
        st = struct_pb2.Struct()
        for k, x in (v.get("fields") or {"__map": []})["__map"]:
            st.fields[k].CopyFrom(struct_pb2.Value(**x))
        return st
    return to_native(fd.message_type, v)


def get_path(val, dotted):
    """Read a dotted field path from a valuation; missing -> None."""
    cur = val
    for p in dotted.split("."):
        if not isinstance(cur, dict) or p not in cur:
            return None
        cur = cur[p]
    return cur


def set_path(val, dotted, v):
    parts = dotted.split(".")
    cur = val
    for p in parts[:-1]:
        cur = cur.setdefault(p, {})
    cur[parts[-1]] = v


def to_native_kwargs(desc, kw):
    """Flattened keyword arguments: kw = {python_param_name: {"path": "a.b", "value": v}} where v is
    the valuation-form value of the (possibly nested) request field at ``path``."""
    out = {}
    for param, spec in kw.items():
        d = desc
        parts = spec["path"].split(".")
        for p in parts[:-1]:
            d = d.fields_by_name[p].message_type
        out[param] = to_native(d, {parts[-1]: spec["value"]})[parts[-1]]
    return out
