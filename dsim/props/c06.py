"""C06 - every call carries an x-goog-request-params header that follows AIP-4222.

Oracle: an independent evaluator over the spec (own segment matcher, not the generator's
regexes).  The header is read from every attempt of every call, every page fetch, and (REST leg)
every HTTP request; sync, asyncio and REST must agree with the evaluator and hence with each other.
"""
import re
import urllib.parse

from .. import grammar, values, engine, oracle
from ..world import find_method, find_message
from . import c09, c07

ID = "C06"
UNKNOWN_REPLY_FIELDS = True      # REST replies of a NEWER server (a field this client does not know) must decode all the same
HDR = "x-goog-request-params"

PROFILE = grammar.profile(
    p_routing=0.55, p_http=0.85, p_get=0.9, p_list=0.6, p_update=0.6, p_delete=0.6, p_custom=0.7, p_create=0.5,
    p_sstream=0.35, p_cstream=0.3, p_stream_routing=0.8, p_routing_name_clash=0.25, p_bidi=0.0, p_lro=0.4, p_raw_op=0.1, p_service_config=0.8, p_yaml=0.05,
    transports=["grpc", "grpc+rest", "grpc+rest"], p_additional_binding=0.4, p_multi_var_path=0.4, p_reserved_path_var=0.5, p_custom_http_pattern=0.3, p_double_star_path=0.25, p_deep_path_var=0.3,
    p_empty_routing=0.2, p_routing_shorthand=0.25, p_keyword_update_field=0.2)

BUDGET = {
    "quick": {"worlds": 150, "runs": 80, "wall_cap": 300, "world_wall": 90},
    "thorough": {"worlds": 4000, "runs": 100, "wall_cap": 2400, "world_wall": 120},
}
REQUIRED_PROBES = ["explicit_rule", "implicit_rule", "no_header_expected", "override_same_key", "nested_field",
                   "value_needs_escaping", "non_matching_value", "empty_value", "header_on_retry_attempt",
                   "header_on_later_page", "async_header", "extra_trailing_segments", "no_template_param", "rest_header", "rest_header_on_later_page", "header_on_lro",
                   "header_on_sstream", "shared_metadata_list_later_call", "custom_http_pattern", "header_on_fetch_after_resume", "rest_connection_error_surfaced", "client_streaming_with_routing_annotation",
                   "empty_routing_annotation", "keyword_path_segment", "routing_template_shorthand"]
SEGS = ["p1", "my-proj", "a b", "é", "x%y", "k=v&z", "seg.1", "~t", "q+r", "UPPER"]


def gen_spec(rng):
    return grammar.gen_api(rng, PROFILE)


# ------------------------------------------------------------------ independent AIP-4222 evaluator

def parse_template(t):
    """'a/*/{key=b/*}/**' -> (key, [(kind, text, in_group)]) with kind in lit|star|dstar."""
    segs = []
    key = None
    depth_open = False
    for raw in _split_top(t):
        if raw.startswith("{"):
            inner = raw[1:-1]
            if "=" in inner:
                key, sub = inner.split("=", 1)
            else:
                key, sub = inner, "*"
            for x in sub.split("/"):
                segs.append((_kind(x), x, True))
        else:
            segs.append((_kind(raw), raw, False))
    return key, segs


def _split_top(t):
    """split on '/' outside braces"""
    out, cur, depth = [], "", 0
    for ch in t:
        if ch == "{":
            depth += 1
        elif ch == "}":
            depth -= 1
        if ch == "/" and depth == 0:
            out.append(cur)
            cur = ""
        else:
            cur += ch
    out.append(cur)
    return out


def _kind(x):
    return "dstar" if x == "**" else "star" if x == "*" else "lit"


def match_template(t, value):
    """Returns the captured string or None.  '*' = exactly one non-empty segment; '**' = zero or more
    segments (the rest of the value); literals must be equal."""
    key, segs = parse_template(t)
    vs = value.split("/")
    cap = []
    i = 0
    for j, (kind, text, ing) in enumerate(segs):
        if kind == "dstar":
            rest = vs[i:]
            if ing:
                cap.extend(rest)
            i = len(vs)
            if j != len(segs) - 1:
                return key, None       # '**' only supported as last segment (grammar never does otherwise)
            break
        if i >= len(vs):
            return key, None
        if kind == "star":
            if vs[i] == "":
                return key, None
        elif vs[i] != text:
            return key, None
        if ing:
            cap.append(vs[i])
        i += 1
    if i != len(vs):
        return key, None
    return key, "/".join(cap)


def expected_params(spec, m, val):
    """Ordered mapping key -> value that AIP-4222 prescribes for request valuation ``val``."""
    out = {}
    if m.get("routing") is not None:          # [] = present and empty: explicit routing with nothing to match
        for p in m["routing"]:
            v = values.get_path(val, p["field"])
            if not isinstance(v, str) or v == "":
                continue
            if not p.get("path_template"):
                out[p["field"]] = v
                continue
            key, cap = match_template(p["path_template"], v)
            if cap:
                out.pop(key, None)
                out[key] = cap
        return out
    if m.get("http"):
        for var in re.findall(r"\{([^}=]+)(?:=[^}]*)?\}", m["http"]["path"]):
            v = values.get_path(val, var)
            out[var] = v if isinstance(v, str) else ""
    return out


# ------------------------------------------------------------------ scenarios

def make_name(rng, pattern, mode):
    def seg():
        return rng.choice(SEGS)
    full = "/".join(seg() if x.startswith("{") else x for x in pattern.split("/"))
    if mode == "match":
        return full
    if mode == "plain":
        return "/".join("s%d" % i if x.startswith("{") else x for i, x in enumerate(pattern.split("/")))
    if mode == "extra":
        return full + "/" + rng.choice(["extra", "parts/x1", "a/b/c"])
    if mode == "short":
        return "/".join(full.split("/")[:-2])
    if mode == "other":
        return "organizations/o1/" + "/".join(full.split("/")[2:])
    if mode == "empty":
        return ""
    if mode == "trailing_slash":
        return full + "/"
    return None   # absent


def routed_fields(spec, m):
    fields = []
    if m.get("routing") is not None:
        fields = [p["field"] for p in m["routing"]]
    elif m.get("http"):
        fields = re.findall(r"\{([^}=]+)(?:=[^}]*)?\}", m["http"]["path"])
    return sorted(set(fields))


def _resource_pattern_for(spec, m, field):
    """Resource pattern string relevant for a routed field (from the http path or a resource)."""
    if m.get("http"):
        mm = re.search(r"\{" + re.escape(field) + r"=([^}]*)\}", m["http"]["path"])
        if mm:
            return re.sub(r"\*", "{x}", mm.group(1))
    for p in m.get("routing") or []:
        if p["field"] == field and p.get("path_template"):
            key, segs = parse_template(p["path_template"])
            if not any(k == "dstar" for k, _, _ in segs):
                return "/".join("{x}" if k == "star" else t for k, t, _ in segs)
    return "projects/{x}/locations/{x}/things/{x}"


def candidates(spec):
    out = []
    for fs, s, m in grammar.all_methods(spec):
        if m.get("client_streaming"):
            # no single request exists when a client-streaming call starts: with a routing ANNOTATION nothing matches and
            # no header may be sent; without one the property is silent (the pinned tree sends an empty header)
            if m.get("routing") and not m.get("server_streaming"):
                out.append((fs, s, m, "cstream"))
            continue
        if find_message(spec, m["input"]) is None:
            continue
        out.append((fs, s, m, c07.classify(spec, m) if not m.get("server_streaming") else None))
    return out


def gen_scenarios(spec, rng, n):
    from .. import protos
    cands = candidates(spec)
    if not cands:
        return []
    files, _ = protos.lower(spec)
    codec = protos.Codec(files)
    transports = spec["options"]["transport"].split("+")
    out = []
    for i in range(n):
        kinds = ["sync", "async", "async"] if "grpc" in transports else []
        if "rest" in transports:
            kinds.append("rest")
        client = rng.choice(kinds)
        nact = 1 if client != "async" else rng.choice([1, 2])
        threads = client != "async" and rng.random() < 0.2     # REAL caller threads sharing one sync/REST client
        if threads:
            nact = rng.choice([2, 2, 3])
        actors = [{"start": 0.0, "ops": []} for _ in range(nact)]
        prev = None
        for j in range(rng.randint(1, 4)):
            fs, s, m, cls = rng.choice(cands)
            if prev and rng.random() < 0.25:
                fs, s, m, cls = prev           # the same RPC again on the same client (state carried between calls)
            prev = (fs, s, m, cls)
            if client == "rest" and (not m.get("http") or m["http"]["verb"] == "custom" or cls == "cstream"):
                continue
            actors[j % nact]["ops"].append(gen_op(spec, rng, codec, fs, s, m, cls, f"o{j}", client))
        actors = [a for a in actors if a["ops"]]
        engine.add_in_place_edits(rng, actors)
        if actors and sum(len(a["ops"]) for a in actors) >= 2 and rng.random() < 0.3:
            for a in actors:
                for op in a["ops"]:
                    op["call"] = dict(op.get("call") or {}, metadata=[["x-caller-tag", "shared"]], metadata_shared="m1")
        if actors:
            sc = {"client": client, "actors": actors, "jitter_default": 0.0}
            if threads and len(sc["actors"]) > 1:
                sc["threads"] = True
                sc["sched_seed"] = rng.randrange(2 ** 32)
            out.append(sc)
    return out


def gen_op(spec, rng, codec, fs, s, m, cls, oid, client):
    if cls == "cstream":
        from .c03 import tagged
        return {"id": oid, "kind": "cstream", "service": s["name"], "method": m["name"], "call": {}, "form": "msg",
                "requests": [tagged(rng, codec, m["input"], f"req-{oid}-{i}") for i in range(rng.randint(1, 3))],
                "server": [{"reply": {}}]}
    if cls is not None:
        op = c07.gen_op(spec, rng, codec, fs, s, m, cls, oid, client)
        op.pop("nested", None)
        op.pop("stop_after", None)
        op["call"] = {}
        op["faults"] = c07.gen_faults(rng, spec, fs, s, m, {}, len(op["pages"]))
        if client == "rest":
            from .. import simhttp
            op["faults"] = {k: [o for o in v if o["code"] in simhttp.ROUND_TRIP] for k, v in op["faults"].items()}
            op["faults"] = {k: v for k, v in op["faults"].items() if v}
        if op["faults"] and rng.random() < 0.6:
            op["resume"] = True        # the caller catches the error of a page fetch and iterates the SAME pager again
        val = op["request"]
    else:
        val = values.rand_valuation(rng, codec.desc(m["input"]), 0, 2, 0.4)
        op = {"id": oid, "kind": "unary", "service": s["name"], "method": m["name"], "call": {},
              "form": rng.choice(["msg", "dict"]), "request": val}
        if m.get("server_streaming"):
            op["kind"] = "sstream"
        elif m["output"] == ".google.longrunning.Operation":
            op.update({"kind": "lro", "raw": m.get("lro") is None, "initial_done": True, "op_name": f"projects/p1/operations/{oid}",
                       "final": {"error": {"code": "ABORTED", "message": "x"}}, "send_metadata": False, "meta_vals": [{}]})
        T, pol, retry_T = c09.call_policy(spec, fs, s, m, {})
        script = []
        codes = pol["codes"] if pol else []
        if client == "rest":
            from .. import simhttp
            codes = [c for c in codes if c in simhttp.ROUND_TRIP]    # (a 401 would make google-auth refresh anonymous credentials)
        if codes and rng.random() < 0.4:
            for _ in range(rng.randint(1, 2)):
                script.append({"code": rng.choice(codes)})
        if op["kind"] == "sstream":
            script = [{"items": [{}]}]           # (stream-start faults: api-core's sync/asyncio retry semantics differ)
        elif op["kind"] == "unary" and client == "rest" and rng.random() < 0.1:
            # fault: the connection breaks on the first send (stale keep-alive).  Nothing but a request that carries the
            # right header may follow, whether the client re-sends or lets the error surface
            script.insert(0, {"conn_error": True})
            script.append({"reply": {}})
            op["conn_error_first"] = True
        elif op["kind"] == "unary" and rng.random() < 0.2:
            # the call finally FAILS with a status that is not retried: whatever the client remembered about this call
            # must not reach the next one (e.g. the same request object, corrected in place and re-submitted)
            from .. import simhttp
            non = [c for c in (simhttp.ROUND_TRIP if client == "rest" else engine.ALL_CODES) if c not in (pol["codes"] if pol else [])]
            if non:
                script.append({"code": rng.choice(non)})
            else:
                script.append({"reply": {}})
        else:
            script.append({"reply": {}})
        op["server"] = script
    for f in routed_fields(spec, m):
        mode = rng.choice(["match", "match", "match", "plain", "extra", "short", "other", "empty", "absent", "trailing_slash"])
        v = make_name(rng, _resource_pattern_for(spec, m, f), mode)
        parts = f.split(".")
        if v is None:
            cur = val
            for p in parts[:-1]:
                cur = cur.get(p) if isinstance(cur, dict) else None
            if isinstance(cur, dict):
                cur.pop(parts[-1], None)
        elif v == "":
            cur = val
            for p in parts[:-1]:
                cur = cur.get(p) if isinstance(cur, dict) else None
            if isinstance(cur, dict):
                cur.pop(parts[-1], None)     # canonical valuation: empty plain string == unset
        else:
            values.set_path(val, f, v)
        op.setdefault("modes", {})[f] = mode
    op["request"] = val
    return op


def server_factory(run):
    from . import c08
    paged = c07.server_factory(run)
    plain = engine.scripted_server(run)
    lro = c08.server_factory(run)

    def serve(call):
        op = run.ops.get(call["op"])
        if op is not None and op["kind"] == "paged":
            return paged(call)
        if op is not None and op["kind"] == "lro":
            faults = [x for x in (op.get("server") or []) if x.get("code")]
            if call["n"] <= len(faults):
                return {"lat": 0.0, "code": faults[call["n"] - 1]["code"]}
            return lro(call)
        return plain(call)
    return serve


def execute(world, scenario):
    return engine.Run(world, scenario, server_factory).run()


def _bump(p, k, n=1):
    p[k] = p.get(k, 0) + n


def judge(spec, scenario, history):
    ra = engine.runaway_violation(history)
    if ra:
        return ra, {}
    ops = oracle.all_ops(scenario)
    probes = {}
    by = oracle.events_by_op(history, ops)
    for oid, op in ops.items():
        oc = next((e for e in by.get(oid, []) if e["k"] in ("return", "raise")), None)
        if oc is not None and oc["k"] == "raise" and oc.get("cls") == "ConnectionError" and op.get("conn_error_first"):
            _bump(probes, "rest_connection_error_surfaced")
            continue
        if oc is not None and oc["k"] == "raise" and not oc.get("api_error") and oc.get("cls") != "RetryError" \
                and not (scenario["client"] == "rest" and oc.get("cls") == "ValueError"):
            # (over REST a request that matches no binding legitimately raises ValueError before sending)
            return [{"rule": "call_failed", "op": oid, "method": op["method"], "msg": f"{scenario['client']} call raised "
                     f"{oc.get('cls')}: {oc.get('msg')}"}], probes
    first_attempt = {}
    resumed = {}
    for e in history:
        if e["k"] == "resumed":
            resumed[e["op"]] = e["seq"]
        if e["k"] != "attempt" or e.get("op") not in ops:
            continue
        if e["op"] in resumed:
            _bump(probes, "header_on_fetch_after_resume")
        op = ops[e["op"]]
        fs, s, m = find_method(spec, op["service"], op["method"])
        path = f"/{fs['package']}.{s['name']}/{m['name']}"
        if e.get("tr") == "grpc" and e["path"] != path:
            continue
        hdrs = [v for k, v in e["md"] if k.lower() == HDR]
        if op["kind"] == "cstream":
            _bump(probes, "client_streaming_with_routing_annotation")
            if hdrs:
                return [{"rule": "routing_header", "op": op["id"], "method": path, "msg": f"client-streaming call with a routing annotation carried "
                         f"x-goog-request-params={hdrs}: nothing can match before a request exists, so no header may be sent"}], probes
            continue
        val = oracle.request_valuation(op)
        want = expected_params(spec, m, val)

        def V(rule, msg):
            return [{"rule": rule, "op": op["id"], "method": path, "msg": msg}], probes
        if len(hdrs) > 1:
            return V("duplicate_header", f"{len(hdrs)} x-goog-request-params entries on one call: {hdrs}")
        raw = hdrs[0] if hdrs else ""
        got = dict(urllib.parse.parse_qsl(raw, keep_blank_values=True))
        n_pairs = len([x for x in raw.split("&") if x]) if raw else 0
        # probes
        if m.get("routing") == []:
            _bump(probes, "empty_routing_annotation")
        if any("." in f and f.split(".")[0] in grammar.KEYWORD_MESSAGE_FIELDS for f in routed_fields(spec, m)):
            _bump(probes, "keyword_path_segment")
        if any(re.search(r"\{[^=}]+\}", p.get("path_template", "")) for p in m.get("routing") or []):
            _bump(probes, "routing_template_shorthand")
        if m.get("routing"):
            _bump(probes, "explicit_rule")
            keys = [parse_template(p["path_template"])[0] if p.get("path_template") else p["field"] for p in m["routing"]]
            hits = 0
            for p in m["routing"]:
                v = values.get_path(val, p["field"])
                if isinstance(v, str) and v and (not p.get("path_template") or match_template(p["path_template"], v)[1]):
                    hits += 1
                if not p.get("path_template"):
                    _bump(probes, "no_template_param")
            if len(set(keys)) < len(keys) and hits >= 2:
                _bump(probes, "override_same_key")
        elif m.get("http"):
            _bump(probes, "implicit_rule")
            if m["http"]["verb"] == "custom":
                _bump(probes, "custom_http_pattern")
        if not want:
            _bump(probes, "no_header_expected")
        for f, mode in (op.get("modes") or {}).items():
            if "." in f:
                _bump(probes, "nested_field")
            if mode in ("extra", "short", "other"):
                _bump(probes, "non_matching_value")
            if mode == "extra":
                _bump(probes, "extra_trailing_segments")
            if mode in ("empty", "absent"):
                _bump(probes, "empty_value")
        if any(re.search(r"[ %&=+é]", v or "") for v in want.values()):
            _bump(probes, "value_needs_escaping")
        if e["n"] > 1 and op["kind"] == "unary":
            _bump(probes, "header_on_retry_attempt")
        if op["kind"] == "paged" and e["op"] in first_attempt and e["n"] > 1:
            _bump(probes, "header_on_later_page")
        first_attempt.setdefault(e["op"], e)
        if op["kind"] in ("lro", "sstream"):
            _bump(probes, "header_on_" + op["kind"])
        if (op.get("call") or {}).get("metadata_shared") and e["op"] != next(iter(ops)):
            _bump(probes, "shared_metadata_list_later_call")
            tags = [v for k, v in e["md"] if k.lower() == "x-caller-tag"]
            if tags != ["shared"]:
                return V("caller_metadata", f"caller metadata x-caller-tag arrived as {tags}; the caller passed it once")
        if scenario["client"] == "async":
            _bump(probes, "async_header")
        if e.get("tr") == "rest":
            _bump(probes, "rest_header")
            if op["kind"] == "paged" and e["n"] > 1:
                _bump(probes, "rest_header_on_later_page")
        # verdict
        if m.get("routing") is not None and not want and hdrs:
            return V("routing_header", f"attempt {e['n']} ({scenario['client']}) carried x-goog-request-params={hdrs!r} although no routing "
                     f"parameter matches: with a routing annotation NO header is sent when nothing matches (an empty one is still a header)")
        if got != want:
            return V("routing_header", f"attempt {e['n']} ({scenario['client']}) carried x-goog-request-params={raw!r} -> {got}; "
                     f"AIP-4222 prescribes {want} for request {str(val)[:200]}")
        if n_pairs != len(want):
            return V("routing_header_encoding", f"raw header {raw!r} splits into {n_pairs} pairs, expected {len(want)} (values must be URL-encoded)")
    return [], probes


def shape(scenario, history):
    faults = sum(1 for e in history if e["k"] == "server" and e.get("code"))
    att = sum(1 for e in history if e["k"] == "attempt")
    kinds = tuple((e["k"], e.get("op")) for e in history)
    hd = tuple(sorted(v for e in history if e["k"] == "attempt" for k, v in e["md"] if k.lower() == HDR))
    return {"nontrivial": faults > 0 or att > sum(len(a["ops"]) for a in scenario["actors"]) or len(scenario["actors"]) > 1,
            "key": (scenario["client"], faults, att, hd), "interleaving": kinds, "faults": {"grpc_status": faults}}
