"""C05 - flattened keyword arguments are equivalent to an explicit request object.  (thin)

No fault or schedule is expected to change the verdict; the property is here for its ordering
clause ("ValueError before anything is sent" = no attempt event between invoke and raise) and for
sync/asyncio parity.  Inputs (signatures, subsets, values) are a seeded sample.
"""
import inspect

from google.protobuf import descriptor as _d

from .. import grammar, values, engine, oracle
from ..world import find_method, find_message
from . import c09

ID = "C05"
FD = _d.FieldDescriptor
HASH_SHARDS = [0, 1, 2]      # parameter ORDER is part of the property: the generator must not take it from a set

PROFILE = grammar.profile(
    sig_variants=True, p_custom=1.0, p_signature=1.0, p_reserved_field=0.3, p_foreign_request=0.4, p_create=0.8,
    p_update=0.7, p_get=0.6, p_delete=0.4, p_list=0.3, p_sstream=0.2, p_cstream=0.0, p_bidi=0.0, p_lro=0.2,
    p_service_config=0.3, p_yaml=0.05, transports=["grpc", "grpc", "grpc+rest"], p_value_fields=0.5, p_struct_fields=0.2, p_two_services=0.5, p_param_name_collision=0.012, p_deprecated_flattened=0.4)

BUDGET = {
    "quick": {"worlds": 150, "runs": 60, "wall_cap": 300, "world_wall": 90},
    "thorough": {"worlds": 3000, "runs": 80, "wall_cap": 2400, "world_wall": 120},
}
REQUIRED_PROBES = ["kwargs_call", "mixed_call_rejected", "dotted_param", "reserved_param", "repeated_param", "map_param",
                   "message_param", "falsy_presence_value", "foreign_request", "async_kwargs", "subset_of_params",
                   "signature_order_checked", "concurrent_flattened_callers", "flattened_call_retried_while_others_run", "repeated_struct_param"]


def gen_spec(rng):
    return grammar.gen_api(rng, PROFILE)


def flattened_paths(m):
    """Ordered union (first appearance) of the fields named in the method's signatures."""
    out = []
    for sg in m.get("signatures") or []:
        for p in sg.split(","):
            p = p.strip()
            if p and p not in out:
                out.append(p)
    return out


def candidates(spec):
    out = []
    for fs, s, m in grammar.all_methods(spec):
        if m.get("client_streaming"):
            continue
        if not flattened_paths(m):
            continue
        out.append((fs, s, m))
    return out


def _leaf_fd(desc, path):
    d = desc
    parts = path.split(".")
    for p in parts[:-1]:
        d = d.fields_by_name[p].message_type
    return d, d.fields_by_name[parts[-1]]


def rand_leaf_value(rng, parent_desc, fd):
    """Valuation-form value for one field (may be falsy on purpose)."""
    if values._is_map(fd) or fd.label == FD.LABEL_REPEATED or fd.type == FD.TYPE_MESSAGE:
        tmp = {}
        values.GENERATE_STRUCT[0] = True
        try:
            for _ in range(6):
                tmp = values.rand_valuation(rng, parent_desc, 0, 2, 1.0)
                if fd.name in tmp:
                    break
        finally:
            values.GENERATE_STRUCT[0] = False
        if fd.name in tmp:
            v = tmp[fd.name]
            if fd.type == FD.TYPE_MESSAGE and fd.label != FD.LABEL_REPEATED and isinstance(v, dict) and rng.random() < 0.25 \
                    and fd.message_type.full_name not in values.WKT_LEAF:
                return {}            # empty message: falsy in python, but present on the wire
            return v
        return None
    if rng.random() < 0.3:
        return values.rand_scalar(rng, fd, nonzero=False) if fd.type != FD.TYPE_STRING else rng.choice(["", "x"])
    return values.rand_scalar(rng, fd, nonzero=True)


def gen_scenarios(spec, rng, n):
    from .. import protos
    cands = candidates(spec)
    if not cands:
        return []
    files, _ = protos.lower(spec)
    codec = protos.Codec(files)
    out = []
    for i in range(n):
        client = rng.choice(["sync", "async"])
        if rng.random() < 0.3:
            # CONCURRENT flattened callers of one client (asyncio tasks, or real threads for the sync client) with
            # retryable faults and real backoff windows: every attempt of every call must carry ITS caller's arguments
            nact = rng.choice([2, 2, 3, 3, 4])
            actors = [{"start": rng.choice([0.0, 0.0, 0.05, 0.4]) if a else 0.0, "ops": []} for a in range(nact)]
            prev = None
            for j in range(nact + rng.randint(0, 3)):
                fs, s, m = rng.choice(cands) if prev is None or rng.random() < 0.4 else prev
                prev = (fs, s, m)
                op = gen_ops(spec, rng, codec, fs, s, m, f"o{j}")[0]          # the kwargs form only
                same = [o for a in actors for o in a["ops"] if (o["service"], o["method"]) == (s["name"], m["name"])]
                if same and rng.random() < 0.35:
                    # value coincidence: another caller passes EQUAL arguments (equal-valued requests are distinct calls)
                    import copy
                    op["kwargs"] = copy.deepcopy(rng.choice(same)["kwargs"])
                T, pol, retry_T = c09.call_policy(spec, fs, s, m, {})
                op["call"] = {}
                nf = rng.randint(1, 2)
                # worst case of the backoff (jitter 1) must stay well inside the retry deadline: this oracle does not model
                # deadlines (C09 does), so the faults must always end in a successful attempt
                worst = sum(min(pol["initial"] * pol["multiplier"] ** k, pol["maximum"]) for k in range(nf)) + 1.0 if pol else 0.0
                if pol and (retry_T is None or worst < 0.5 * retry_T) and rng.random() < 0.7:
                    op["faults"] = [rng.choice(pol["codes"]) for _ in range(nf)]
                    op["call"] = {}                                           # default retry: the faults are retried
                else:
                    op["call"] = {"retry": "none"}
                op["lat"] = rng.choice([0.0, 0.01, 0.2, 1.0])
                if T is not None:
                    op["lat"] = min(op["lat"], T / 4)       # the reply always beats the attempt deadline
                actors[j % nact]["ops"].append(op)
            sc = {"client": client, "actors": [a for a in actors if a["ops"]], "jitter_default": rng.choice([0.5, 1.0])}
            if client == "sync" and len(sc["actors"]) > 1:
                sc["threads"] = True
                sc["sched_seed"] = rng.randrange(2 ** 32)
            out.append(sc)
            continue
        ops = []
        for j in range(rng.randint(1, 3)):
            fs, s, m = rng.choice(cands)
            ops.extend(gen_ops(spec, rng, codec, fs, s, m, f"o{j}"))
        out.append({"client": client, "actors": [{"start": 0.0, "ops": ops}], "jitter_default": 0.0})
    return out


def gen_ops(spec, rng, codec, fs, s, m, oid):
    desc = codec.desc(m["input"])
    paths = flattened_paths(m)
    foreign = not m["input"].startswith("." + spec["package"] + ".")
    if foreign:
        # the generator only flattens primitive fields of a dependency-package request
        paths = [p for p in paths if _leaf_fd(desc, p)[1].type != FD.TYPE_MESSAGE or False]
    chosen = [p for p in paths if rng.random() < 0.6] or paths[:1]
    # a message and a field nested in it (`widget` and `widget.name`) have no single equivalent request when both are given
    chosen = [p for p in chosen if not any(q != p and p.startswith(q + ".") for q in chosen)]
    kw = {}
    used_oneofs = set()
    for p in chosen:
        pd, fd = _leaf_fd(desc, p)
        oo = fd.containing_oneof
        if oo is not None and not (len(oo.fields) == 1 and oo.name.startswith("_")):
            if (pd.full_name, oo.name) in used_oneofs:
                continue          # two members of one oneof in a single call have no single equivalent request
            used_oneofs.add((pd.full_name, oo.name))
        v = rand_leaf_value(rng, pd, fd)
        if v is None:
            continue
        presence = values._has_presence(fd) or (fd.containing_oneof is not None)
        if not presence and (v == 0 or v == "" or v is False or v == [] or v == {"__map": []}) and not isinstance(v, dict):
            continue     # default value on a field without presence == unset: canonical valuations omit it
        kw[p] = {"path": p, "value": v}
    kind = grammar.method_kind(m)
    from .c07 import classify
    if kind == "unary" and classify(spec, m) is not None:
        kind = "paged1"
    if m["output"] == ".google.longrunning.Operation" and m.get("lro") is not None:
        kind = "lro0"
    base = {"service": s["name"], "method": m["name"], "call": {"retry": "none"}, "kind": "flat",
            "server": [{"reply": {}}], "mkind": kind}
    ops = [dict(base, id=oid + "k", form="kwargs", kwargs=kw)]
    val = oracle.request_valuation(ops[0])
    rep_value = any(_leaf_fd(desc, p)[1].label == FD.LABEL_REPEATED and _leaf_fd(desc, p)[1].type == FD.TYPE_MESSAGE
                    and _leaf_fd(desc, p)[1].message_type.full_name in ("google.protobuf.Value", "google.protobuf.Struct") for p in kw)
    if not rep_value:
        # (a list of google.protobuf.Value / Struct cannot be given to a proto-plus constructor: such values only travel as kwargs)
        ops.append(dict(base, id=oid + "r", form=rng.choice(["msg", "dict"]), request=val))
        if kw and rng.random() < 0.5:
            ops.append(dict(base, id=oid + "b", form="both", request=val, kwargs=kw))
    return ops


# ------------------------------------------------------------------ executor (kwargs resolved by introspection)

def _resolve_kwargs(run, fn, op):
    _, _, m = find_method(run.world.spec, op["service"], op["method"])
    sig = inspect.signature(fn)
    params = []
    for name in sig.parameters:
        if name == "request":
            continue
        if name in ("retry", "timeout", "metadata"):
            break
        params.append(name)
    run.sim.ev("signature", op=op["id"], params=params)
    paths = flattened_paths(m)
    desc = run.world.codec.desc(m["input"])
    if not m["input"].startswith("." + run.world.spec["package"] + "."):
        paths = [p for p in paths if _leaf_fd(desc, p)[1].type != FD.TYPE_MESSAGE]
    if len(params) != len(paths):
        return None
    byp = dict(zip(paths, params))
    return {byp[p]: spec for p, spec in (op.get("kwargs") or {}).items()}


def _finish(run, op, resp):
    if resp is None:
        run.sim.ev("return", op=op["id"], value=None, cls=None)
        return
    if hasattr(resp, "SerializeToString") or hasattr(type(resp), "pb"):
        b, cls = engine.to_bytes(resp)
        run.sim.ev("return", op=op["id"], value=b.hex(), cls=cls)
    else:
        run.sim.ev("return", op=op["id"], value=None, cls=type(resp).__name__)   # pager / future / stream


def _prep(run, client, op, asyncio_flavour):
    fn = engine.client_method(client, op["method"])
    o = dict(op)
    kw = None
    if op["form"] in ("kwargs", "both"):
        kw = _resolve_kwargs(run, fn, op)
        o["kwargs"] = kw or {}
    args, kwargs = run.build_call(o, asyncio_flavour)
    return fn, kwargs, kw


def _sync_flat(run, client, op):
    fn, kwargs, kw = _prep(run, client, op, False)
    engine._invoke_ev(run, op)
    if op["form"] in ("kwargs", "both") and kw is None:
        run.sim.ev("raise", op=op["id"], cls="SignatureMismatch", mod="dsim", msg="flattened parameter count differs")
        return
    try:
        resp = fn(**kwargs)
    except Exception as e:  # noqa
        run.sim.ev("raise", op=op["id"], **engine.exc_info(e))
        return
    _finish(run, op, resp)


async def _async_flat(run, client, op):
    fn, kwargs, kw = _prep(run, client, op, True)
    engine._invoke_ev(run, op)
    if op["form"] in ("kwargs", "both") and kw is None:
        run.sim.ev("raise", op=op["id"], cls="SignatureMismatch", mod="dsim", msg="flattened parameter count differs")
        return
    try:
        resp = await fn(**kwargs)
    except Exception as e:  # noqa
        run.sim.ev("raise", op=op["id"], **engine.exc_info(e))
        return
    _finish(run, op, resp)


engine.SYNC_EXEC["flat"] = _sync_flat
engine.ASYNC_EXEC["flat"] = _async_flat


def server_factory(run):
    codec = run.world.codec
    spec = run.world.spec

    def serve(call):
        op = run.ops.get(call["op"])
        sm = run.world.rpc.get(call["path"])
        if op is None or sm is None:
            return {"code": "UNIMPLEMENTED"}
        _, m, _ = sm
        out = m["output"]
        faults = op.get("faults") or []
        if call["n"] <= len(faults):
            return {"code": faults[call["n"] - 1], "lat": 0.0}          # (faults stop after the script)
        if op.get("lat"):
            return dict(_reply(codec, m), lat=op["lat"])
        if m.get("server_streaming"):
            return {"msgs": []}
        if out == ".google.longrunning.Operation":
            o = codec.cls("google.longrunning.Operation")()
            o.name = "operations/x"
            o.done = False
            return {"msg": o}
        return {"msg": codec.cls(out)()}
    return serve


def _reply(codec, m):
    out = m["output"]
    if m.get("server_streaming"):
        return {"msgs": []}
    if out == ".google.longrunning.Operation":
        o = codec.cls("google.longrunning.Operation")()
        o.name = "operations/x"
        o.done = False
        return {"msg": o}
    return {"msg": codec.cls(out)()}


def execute(world, scenario):
    return engine.Run(world, scenario, server_factory).run()


def _bump(p, k, n=1):
    p[k] = p.get(k, 0) + n


def judge(spec, scenario, history):
    from .c07 import _codec
    codec = _codec(spec)
    ra = engine.runaway_violation(history)
    if ra:
        return ra, {}
    ops = oracle.all_ops(scenario)
    by = oracle.events_by_op(history, ops)
    probes = {}
    pending, seen_pending = [], set()
    for oid, op in ops.items():
        evs = by.get(oid, [])
        if not any(e["k"] == "invoke" for e in evs):
            continue
        fs, s, m = find_method(spec, op["service"], op["method"])
        path = f"/{fs['package']}.{s['name']}/{m['name']}"
        desc = codec.desc(m["input"])

        def V(rule, msg):
            return [{"rule": rule, "op": op["id"], "method": path, "msg": msg}], probes
        attempts = [e for e in evs if e["k"] == "attempt" and e["path"] == path]
        outcome = next((e for e in evs if e["k"] in ("return", "raise")), None)
        sg = next((e for e in evs if e["k"] == "signature"), None)
        if sg is not None:
            paths = flattened_paths(m)
            got = sg["params"]
            if not m["input"].startswith("." + spec["package"] + "."):
                _bump(probes, "foreign_request")
                kept = [p for p in paths if _leaf_fd(desc, p)[1].type != FD.TYPE_MESSAGE]
                if len(kept) != len(paths) and len(got) == len(kept):
                    # known finding (open): the message-typed fields of a dependency-package request named by the
                    # method_signature are not offered at all; everything else about the call is still judged
                    dropped = [p for p in paths if p not in kept]
                    if (op["id"], "dropped") not in seen_pending:
                        seen_pending.add((op["id"], "dropped"))
                        pending.append({"rule": "foreign_message_param_dropped", "op": op["id"], "method": path,
                                        "msg": f"client method offers flattened parameters {got}; the method_signature(s) declare {paths}: "
                                               f"the message-typed field(s) {dropped} of the dependency-package request {m['input']} are not offered"})
                    paths = kept
            want = [p.split(".")[-1] for p in paths]
            _bump(probes, "signature_order_checked")
            if len(got) != len(want) or any(g not in (w, w + "_") for g, w in zip(got, want)):
                return V("signature_params", f"client method offers flattened parameters {got}; the method_signature(s) declare "
                         f"{paths} in this order (a reserved word gets one trailing underscore)")
        if op["form"] == "both":
            if outcome is None or outcome["k"] != "raise" or outcome.get("cls") != "ValueError":
                return V("mixed_call_accepted", f"request= together with flattened arguments must raise ValueError; got "
                         f"{outcome and outcome['k']} {outcome and outcome.get('cls')}")
            if [e for e in evs if e["k"] == "attempt"]:
                return V("sent_before_valueerror", "a call was put on the wire before the ValueError was raised")
            _bump(probes, "mixed_call_rejected")
            continue
        if outcome is None:
            return V("no_outcome", "call neither returned nor raised")
        if outcome["k"] == "raise":
            return V("unexpected_exception", f"{op['form']} call raised {outcome.get('cls')}: {outcome.get('msg')}")
        if not attempts:
            return V("nothing_sent", "the call returned but nothing was sent")
        exp = oracle.expected_request(codec, m, op)
        got = codec.parse(m["input"], bytes.fromhex(attempts[0]["reqs"][0]))
        if len(scenario["actors"]) > 1:
            _bump(probes, "concurrent_flattened_callers")
            if len(attempts) > 1:
                _bump(probes, "flattened_call_retried_while_others_run")
            for a in attempts[1:]:
                g2 = codec.parse(m["input"], bytes.fromhex(a["reqs"][0]))
                if g2 != exp:
                    return V("kwargs_request_mismatch", f"attempt {a['n']} of a flattened call sent {str(g2)[:300]!r}; the equivalent request is "
                             f"{str(exp)[:300]!r} (other callers of the same client were in flight)")
        if op["form"] == "kwargs":
            _bump(probes, "kwargs_call")
            if scenario["client"] == "async":
                _bump(probes, "async_kwargs")
            if len(op["kwargs"]) < len(flattened_paths(m)):
                _bump(probes, "subset_of_params")
            for p, spc in op["kwargs"].items():
                pd, fd = _leaf_fd(desc, p)
                if "." in p:
                    _bump(probes, "dotted_param")
                if any(x in grammar.RESERVED_FIELD_NAMES or x + "_" in grammar.RESERVED_FIELD_NAMES for x in p.split(".")):
                    _bump(probes, "reserved_param")
                if values._is_map(fd):
                    _bump(probes, "map_param")
                elif fd.label == FD.LABEL_REPEATED:
                    _bump(probes, "repeated_param")
                    if fd.type == FD.TYPE_MESSAGE and fd.message_type.full_name == "google.protobuf.Value":
                        _bump(probes, "repeated_value_param")
                    if fd.type == FD.TYPE_MESSAGE and fd.message_type.full_name == "google.protobuf.Struct":
                        _bump(probes, "repeated_struct_param")
                elif fd.type == FD.TYPE_MESSAGE:
                    _bump(probes, "message_param")
                v = spc["value"]
                if v in (0, "", False) or v == {}:
                    _bump(probes, "falsy_presence_value")
        if got != exp:
            return V("kwargs_request_mismatch" if op["form"] == "kwargs" else "request_mismatch",
                     f"{op['form']} call sent {str(got)[:300]!r}; the equivalent request is {str(exp)[:300]!r}")
    return pending[:1], probes


def shape(scenario, history):
    kinds = tuple((e["k"], e.get("op")) for e in history)
    forms = tuple(sorted(op["form"] + ":" + ",".join(sorted(op.get("kwargs") or {})) for a in scenario["actors"] for op in a["ops"]))
    return {"nontrivial": any(op["form"] in ("kwargs", "both") for a in scenario["actors"] for op in a["ops"]),
            "key": (scenario["client"], forms), "interleaving": kinds, "faults": {}}


def signature(spec, scenario, rule):
    if rule == "world_unbuildable":
        import keyword
        for fs, s, m in grammar.all_methods(spec):
            for p in flattened_paths(m):
                parts = p.split(".")
                if any(keyword.iskeyword(x) for x in parts[:-1]):
                    return "dotted method_signature whose parent segment is a Python keyword"
    return rule
