"""C07 - paginated methods yield every item of every page exactly once, in order.

Oracle: a sequential pager model.  The server (below) serves a scripted page history keyed by
page token, injects scripted faults between pages, and refuses to serve a page twice to the
same pager (so a pager that never advances is stopped instead of looping).  The judge walks the
recorded history: requests seen by the server, items yielded to the caller, final attributes.
"""
import json

from google.protobuf import descriptor as _d

from .. import grammar, values, engine
from ..world import find_method, find_message
from . import c09

ID = "C07"
UNKNOWN_REPLY_FIELDS = True      # REST replies of a NEWER server (a field this client does not know) must decode all the same
FD = _d.FieldDescriptor

PROFILE = grammar.profile(
    paged_variants=True, p_list=1.0, p_get=0.3, p_create=0.1, p_update=0.1, p_delete=0.1, p_custom=0.15,
    p_sstream=0.0, p_cstream=0.0, p_bidi=0.0, p_lro=0.0, p_service_config=0.9, p_yaml=0.05,
    p_second_file=0.5, p_shuffle_numbers=0.5, resources=(1, 3), transports=["grpc", "grpc+rest", "grpc+rest"], p_foreign_paged=0.2,
    p_mistyped_max_results=0.15)

BUDGET = {
    "quick": {"worlds": 150, "runs": 120, "wall_cap": 300, "world_wall": 90},
    "thorough": {"worlds": 4000, "runs": 150, "wall_cap": 2400, "world_wall": 120},
}
REQUIRED_PROBES = ["multi_page", "empty_middle_page", "fault_between_pages", "request_reused", "reuse_during",
                   "cancelled_mid_iteration", "rest_reply_body_lost", "attrs_read_between_page_fetches", "nonpaged_method", "map_paged", "scalar_paged", "concurrent_pagers",
                   "nonretryable_between_pages", "explicit_options_multi_page", "async_multi_page", "pages_consumed", "rest_fetch",
                   "rest_multi_page", "repeated_cursor_value", "pager_walked_twice"]
ASSUMPTIONS = ["corners excluded from the grammar: a VALID page_size and a VALID max_results in one request (a mistyped "
               "max_results next to a valid page_size is generated: finding 27); wrapper-typed page_size; streaming RPCs with "
               "paging-shaped messages are generated and judged by C03 (finding 28), C07 classifies them as not paginated"]

INT_TYPES = {"int32", "int64", "uint32", "uint64", "sint32", "sint64", "fixed32", "fixed64", "sfixed32", "sfixed64"}


def gen_spec(rng):
    return grammar.gen_api(rng, PROFILE)


# ------------------------------------------------------------------ classification (oracle side)

def classify(spec, m):
    """AIP-4233 rule as stated in the property, evaluated on the input spec only.
    Returns None (not paginated) or {"items": field spec of the first repeated response field}."""
    if m.get("client_streaming") or m.get("server_streaming"):
        return None
    req, resp = find_message(spec, m["input"]), find_message(spec, m["output"])
    if req is None or resp is None:
        return None
    rf = {f["name"]: f for f in req["fields"]}
    of = {f["name"]: f for f in resp["fields"]}

    def is_str(f):
        return f is not None and f["type"] == "string" and not f.get("repeated") and not f.get("map")

    if not is_str(rf.get("page_token")) or not is_str(of.get("next_page_token")):
        return None
    size_ok = False
    ps = rf.get("page_size")
    if ps is not None and ps["type"] in INT_TYPES and not ps.get("repeated") and not ps.get("map"):
        size_ok = True
    mr = rf.get("max_results")
    if mr is not None and not mr.get("repeated") and not mr.get("map"):
        if mr["type"] in INT_TYPES or (mr["type"] == "message" and mr.get("type_name") in (
                ".google.protobuf.Int32Value", ".google.protobuf.UInt32Value")):
            size_ok = True
    if not size_ok:
        return None
    for f in resp["fields"]:          # declaration order
        if f.get("repeated") or f.get("map"):
            return {"items": f}
    return None


def list_methods(spec):
    out = []
    for fs, s, m in grammar.all_methods(spec):
        req = find_message(spec, m["input"])
        if m["name"].startswith("List") and req is not None:
            out.append((fs, s, m, classify(spec, m)))
    return out


# ------------------------------------------------------------------ scenario generation

def _item_val(rng, codec, spec, f, tag, counter):
    """One unique item value for the paged field f (field spec)."""
    if f.get("map"):
        kt = f["map"]["key"]
        key = f"k-{tag}" if kt == "string" else counter
        vt = f["map"]["value"]
        if vt["type"] == "message":
            v = values.rand_valuation(rng, codec.desc(vt["type_name"]), depth=1, max_depth=2, p_field=0.4)
            if "name" in codec.desc(vt["type_name"]).fields_by_name:
                v["name"] = f"n-{tag}"
            return [key, v]
        return [key, f"v-{tag}"]
    if f["type"] == "message":
        d = codec.desc(f["type_name"])
        v = values.rand_valuation(rng, d, depth=1, max_depth=2, p_field=0.4)
        if "name" in d.fields_by_name and d.fields_by_name["name"].type == FD.TYPE_STRING:
            v["name"] = f"n-{tag}"
        return v
    if f["type"] == "string":
        return f"s-{tag}"
    if f["type"] == "bytes":
        return {"__b": tag.encode().hex()}
    if f["type"] == "enum":
        return rng.choice([0, 1, 2, 5])
    return counter


def gen_pages(rng, codec, spec, m, cls, oid, npages=None):
    resp = find_message(spec, m["output"])
    f = cls["items"]
    from ..rng import deep
    npages = npages or rng.choice([1, 2, 3, 4, 5, 6, 8] if deep() else [1, 1, 2, 2, 3, 3, 4, 5])
    pages = []
    dup_token = npages >= 3 and rng.random() < 0.12
    dup_at = rng.randint(1, max(1, npages - 2))
    counter = [rng.randint(1, 1000) * 1000]
    for i in range(npages):
        k = rng.choice([0, 1, 1, 2, 3]) if npages > 1 else rng.choice([0, 1, 2, 3])
        items = []
        for j in range(k):
            counter[0] += 1
            items.append(_item_val(rng, codec, spec, f, f"{oid}.p{i}.{j}", counter[0]))
        page = {f["name"]: ({"__map": items} if f.get("map") else items)}
        if not items:
            page.pop(f["name"])
        for g in resp["fields"]:
            if g["name"] in (f["name"], "next_page_token"):
                continue
            if g.get("repeated") and g["type"] == "string":
                page[g["name"]] = [f"other-{oid}.p{i}.{x}" for x in range(rng.randint(0, 2))]
                if not page[g["name"]]:
                    page.pop(g["name"])
            elif g.get("repeated") and g["type"] == "message":
                page[g["name"]] = [values.rand_valuation(rng, codec.desc(g["type_name"]), 1, 2, 0.4)
                                   for _ in range(rng.randint(0, 2))]
                if not page[g["name"]]:
                    page.pop(g["name"])
            elif g["type"] == "int32":
                page[g["name"]] = 100 + i
            elif g["type"] == "string":
                page[g["name"]] = f"attr-{oid}.p{i}"
        tok = f"tok-{oid}-{i}" if i < npages - 1 else ""
        if tok and i >= 1 and dup_token and i == dup_at:
            tok = pages[-1]["next_page_token"]          # the same opaque cursor twice in a row (legal: tokens are opaque)
        if tok:
            page["next_page_token"] = tok
        pages.append(page)
    return pages


def gen_request(rng, spec, m, codec):
    req = find_message(spec, m["input"])
    val = {}
    for f in req["fields"]:
        n = f["name"]
        if n == "parent":
            val[n] = "projects/" + rng.choice(["p1", "my proj", "p/é"]) if rng.random() < 0.15 else "projects/p1/locations/l1"
        elif n == "page_token":
            if f["type"] == "string" and rng.random() < 0.3:
                val[n] = "resume-" + str(rng.randint(1, 99))
        elif n in ("page_size", "max_results"):
            if rng.random() < 0.7:
                if f["type"] == "message":
                    val[n] = {"value": "10" if f.get("type_name", "").endswith("StringValue") else rng.randint(1, 50)}
                elif f["type"] in INT_TYPES:
                    val[n] = rng.randint(1, 50)
                elif f["type"] == "string":
                    val[n] = "10"
        elif n == "filter" and rng.random() < 0.5:
            val[n] = rng.choice(["a=b", "size>3", "x y"])
        elif n == "order_by" and rng.random() < 0.4:
            val[n] = "name desc"
        elif n == "show_deleted" and rng.random() < 0.3:
            val[n] = True
        if f.get("repeated") and n in val and not isinstance(val[n], list):
            val[n] = [val[n]]           # near-miss shapes: a marker field declared `repeated`
    return val


def gen_scenarios(spec, rng, n):
    from .. import protos
    lm = list_methods(spec)
    if not lm:
        return []
    files, _ = protos.lower(spec)
    codec = protos.Codec(files)
    out = []
    for i in range(n):
        tr = spec["options"]["transport"]
        client = rng.choice(["sync", "async", "async"] + (["rest"] if "rest" in tr else []))
        if "grpc" not in tr:
            client = "rest"
        from ..rng import deep
        nact = 1 if client != "async" else rng.choice([1, 2, 3, 4, 5] if deep() else [1, 2, 2, 3])
        threads = client != "async" and rng.random() < 0.2     # REAL caller threads sharing one sync/REST client
        if threads:
            nact = rng.choice([2, 2, 3])
        actors = [{"start": 0.0 if a == 0 else round(rng.choice([0.0, 0.004, 0.02]), 3), "ops": []} for a in range(nact)]
        nops = rng.randint(1, 3) if nact == 1 else nact + rng.randint(0, 1)
        seq = 0
        for j in range(nops):
            fs, s, m, cls = rng.choice(lm)
            if client == "rest" and not m.get("http"):
                continue
            oid = f"o{seq}"
            seq += 1
            op = gen_op(spec, rng, codec, fs, s, m, cls, oid, client)
            if client == "rest":
                _restify(spec, rng, fs, s, m, op)
            a = actors[j % nact]
            a["ops"].append(op)
            # caller reuses the same request object for a second call, after or during the first
            if cls is not None and op["form"] == "msg" and rng.random() < 0.25:
                oid2 = f"o{seq}"
                seq += 1
                op2 = gen_op(spec, rng, codec, fs, s, m, cls, oid2, client)
                op2["form"] = "msg"
                if rng.random() < 0.5:
                    op2["request"] = op["request"]
                    op2["reuse_of"] = oid          # the same object, same values
                else:
                    # the same object EDITED IN PLACE to other values ("one request, set parent, call again") while the
                    # first pager may still be iterating: that pager must go on with the values it was called with
                    op2["mutate_of"] = oid
                    op2["request"].pop("page_token", None)
                op2["call"] = dict(op.get("call") or {})
                # faults of op2 were drawn against its own call options; redraw with op's
                op2["faults"] = gen_faults(rng, spec, fs, s, m, op2["call"], len(op2["pages"]))
                if client == "rest":
                    keep = op2["request"]
                    _restify(spec, rng, fs, s, m, op2)
                    if op2.get("reuse_of"):
                        op2["request"] = op["request"]
                if rng.random() < 0.5 and not op.get("stop_after"):
                    total = sum(_page_len(p, cls) for p in op["pages"])
                    op["nested"] = {"after": rng.randint(0, total), "op": op2}
                    if op.get("consume") == "pages":
                        op["nested"]["after"] = rng.randint(1, len(op["pages"]))
                else:
                    a["ops"].append(op2)
        sc = {"client": client, "actors": [a for a in actors if a["ops"]], "jitter_default": 0.0}
        if threads and len(sc["actors"]) > 1:
            sc["threads"] = True
            sc["sched_seed"] = rng.randrange(2 ** 32)
        if client == "async" and rng.random() < 0.15:
            sc["cancels"] = [{"actor": rng.randrange(len(sc["actors"])), "at": round(rng.choice([0.001, 0.01, 0.03, 0.08]), 3)}]
        out.append(sc)
    return out


def _restify(spec, rng, fs, s, m, op):
    """REST flavour: path variables must instantiate the binding; only status codes that come back
    over HTTP as the same api-core class are injected; wrapper-typed max_results stays."""
    from . import c04
    from .. import simhttp
    c04._fill_path_vars(rng, op["request"], m, m["http"], "ok")
    c04.prune_empty(op["request"])
    for k, lst in list((op.get("faults") or {}).items()):
        op["faults"][k] = [o for o in lst if o["code"] in simhttp.ROUND_TRIP]
        if not op["faults"][k]:
            del op["faults"][k]
    if op.get("pages") and rng.random() < 0.1:
        # fault: one page fetch is answered 200 with an EMPTY body (the reply was lost on the way); the rest of the
        # listing cannot be known, so the iteration must not end as if it were complete
        op["faults"].setdefault(str(rng.randrange(len(op["pages"]))), []).append({"code": "LOST_BODY"})
        op.pop("nested", None)
    call = op.get("call") or {}
    if isinstance(call.get("retry"), dict):
        call["retry"]["codes"] = [c for c in call["retry"]["codes"] if c in simhttp.ROUND_TRIP] or ["UNAVAILABLE"]
    call.pop("metadata", None)


def _page_len(page, cls):
    v = page.get(cls["items"]["name"])
    if v is None:
        return 0
    return len(v["__map"]) if isinstance(v, dict) else len(v)


def gen_faults(rng, spec, fs, s, m, call, npages):
    T, pol, retry_T = c09.call_policy(spec, fs, s, m, call)
    faults = {}
    if rng.random() < 0.45:
        return faults
    codes = pol["codes"] if pol else []
    non = [c for c in engine.ALL_CODES if c not in codes]
    for _ in range(rng.randint(1, 2)):
        i = rng.randrange(npages)
        lst = faults.setdefault(str(i), [])
        if codes and rng.random() < 0.75:
            lst.append({"code": rng.choice(codes)})
        elif rng.random() < 0.5:
            lst.append({"code": rng.choice(non)})
    return {k: v for k, v in faults.items() if v}


def gen_op(spec, rng, codec, fs, s, m, cls, oid, client):
    call = {}
    c = rng.random()
    if c < 0.2:
        call["retry"] = {"initial": 0.1, "maximum": 1.0, "multiplier": 2.0,
                         "codes": sorted(rng.sample(engine.ALL_CODES, 2)), "timeout": rng.choice([None, 50.0])}
    elif c < 0.27:
        call["retry"] = "none"
    if rng.random() < 0.25:
        call["timeout"] = rng.choice([7.0, 33.0, 1.5, None])
    if rng.random() < 0.2:
        call["metadata"] = [["x-caller-tag", f"tag-{oid}"]]
        if rng.random() < 0.4:
            call["metadata_form"] = "tuple"
    op = {"id": oid, "kind": "paged", "service": s["name"], "method": m["name"],
          "form": rng.choice(["msg", "msg", "dict"]), "request": gen_request(rng, spec, m, codec), "call": call}
    if cls is None:
        # oracle says: not paginated -> plain response expected
        op["pages"] = []
        op["reply"] = values.rand_valuation(rng, codec.desc(m["output"]), 0, 2, 0.6)
        op["faults"] = {}
        return op
    op["pages"] = gen_pages(rng, codec, spec, m, cls, oid)
    op["faults"] = gen_faults(rng, spec, fs, s, m, call, len(op["pages"]))
    op["lat"] = rng.choice([0.0, 0.0, 0.003, 0.01, 0.02])
    c = rng.random()
    if c < 0.2:
        op["consume"] = "pages"
    total = sum(_page_len(p, cls) for p in op["pages"])
    if rng.random() < 0.12 and total > 1 and op.get("consume") != "pages":
        op["stop_after"] = rng.randint(1, total - 1)
    resp = find_message(spec, m["output"])
    attrs = ["next_page_token"] + [g["name"] for g in resp["fields"] if not g.get("repeated") and not g.get("map")
                                   and g["type"] in ("int32", "string") and g["name"] != "next_page_token"]
    op["read_attrs"] = attrs
    if op.get("consume") == "pages" and rng.random() < 0.6:
        op["read_attrs_each_page"] = True      # the caller looks at pager.next_page_token / total_size after every page
    if client == "async":
        op["think"] = rng.choice([0.0, 0.0, 0.002, 0.01])
    if not any(op["faults"].values()) and "stop_after" not in op and op.get("consume") != "pages":
        # caller behaviour: walk the same pager object twice.  (Decided by a PRNG derived from the finished op, so the rest of
        # the workload is what it was.)
        import random
        from .. import rng as rng_mod
        if random.Random(int(rng_mod.digest(op)[:12], 16)).random() < 0.15:
            op["reiterate"] = True
    return op


# ------------------------------------------------------------------ server

def server_factory(run):
    codec = run.world.codec
    state = {}
    all_ops = {}

    def reg(op):
        all_ops[op["id"]] = op
        if op.get("nested"):
            reg(op["nested"]["op"])
    for op in run.ops.values():
        reg(op)
    run.ops.update(all_ops)

    def serve(call):
        op = all_ops.get(call["op"])
        if op is None:
            return {"code": "INTERNAL"}
        if call.get("tr") == "rest":
            _, _, m = find_method(run.world.spec, op["service"], op["method"])
        else:
            sm = run.world.rpc.get(call["path"])
            if sm is None:
                return {"code": "UNIMPLEMENTED"}
            _, m, _ = sm
        if not op.get("pages"):
            return {"lat": 0.0, "msg": values.to_dynamic(codec, m["output"], op.get("reply") or {})}
        if call.get("tr") == "rest":
            import urllib.parse as _up
            q = dict(_up.parse_qsl(_up.urlsplit(call["url"]).query, keep_blank_values=True))
            tok = q.get("pageToken", "")
            if "pageToken" not in q and call["reqs"] and call["reqs"][0]:
                # a binding with body "*" carries the cursor in the JSON body
                try:
                    tok = json.loads(bytes.fromhex(call["reqs"][0]).decode("utf-8")).get("pageToken", "")
                except Exception:  # noqa
                    tok = ""
        else:
            req = codec.parse(m["input"], bytes.fromhex(call["reqs"][0]))
            tok = getattr(req, "page_token", "")
        st = state.setdefault(op["id"], {"tries": {}, "served": {}, "next": 0})
        if op["id"] in getattr(run, "second_pass", ()) and not st.get("pass2"):
            st.update({"pass2": True, "served": {}, "next": 1})       # a second walk may ask for every page again
        toks = [(op["request"].get("page_token") or "")] + [p["next_page_token"] for p in op["pages"][:-1]]
        if len(set(toks)) < len(toks):
            # repeated cursor values: the server is stateful (serves its history in order) and only checks
            # that the client presents the token it was handed
            i = st["next"] if st["next"] < len(toks) and toks[st["next"]] == tok else None
        else:
            i = toks.index(tok) if tok in toks else None
        if i is None:
            run.sim.ev("server_unknown_token", op=op["id"], token=tok)
            return {"code": "INVALID_ARGUMENT"}
        st["tries"][i] = st["tries"].get(i, 0) + 1
        script = (op.get("faults") or {}).get(str(i), [])
        if st["tries"][i] <= len(script):
            o = script[st["tries"][i] - 1]
            if o["code"] == "LOST_BODY":
                # REST only: 200 OK with a zero-length body.  The page's content is lost; the reference server does not
                # count it as served
                return {"lat": op.get("lat", 0.0), "lost_body": True, "msg": values.to_dynamic(codec, m["output"], {})}
            return {"lat": op.get("lat", 0.0), "code": o["code"]}
        st["served"][i] = st["served"].get(i, 0) + 1
        st["next"] = i + 1
        if st["served"][i] > 1:
            run.sim.ev("server_refetch", op=op["id"], page=i)
            return {"code": "FAILED_PRECONDITION"}
        run.sim.ev("server_page", op=op["id"], page=i)
        return {"lat": op.get("lat", 0.0), "msg": values.to_dynamic(codec, m["output"], op["pages"][i])}
    return serve


def execute(world, scenario):
    return engine.Run(world, scenario, server_factory).run()


# ------------------------------------------------------------------ oracle

def _all_ops(scenario):
    out = {}

    def reg(op):
        out[op["id"]] = op
        if op.get("nested"):
            reg(op["nested"]["op"])
    for a in scenario["actors"]:
        for op in a["ops"]:
            reg(op)
    return out


_CODEC_CACHE = {}


def _codec(spec):
    from .. import protos, rng as R
    k = id(spec)
    c = _CODEC_CACHE.get(k)
    if c is None or c[0] is not spec:
        files, _ = protos.lower(spec)
        c = (spec, protos.Codec(files))
        _CODEC_CACHE.clear()
        _CODEC_CACHE[k] = c
    return c[1]


def judge(spec, scenario, history):
    codec = _codec(spec)
    ops = _all_ops(scenario)
    probes = {}
    viol = []
    ra = next((e for e in history if e["k"] == "runaway"), None)
    if ra is not None:
        return [{"rule": "runaway", "op": ra.get("op"), "msg": "the client kept issuing requests beyond every bound of the "
                 "model (" + str(ra.get("msg")) + "): a finite server script must lead to a finite call"}], {}
    by_op = {}
    for e in history:
        if e.get("op") in ops:
            by_op.setdefault(e["op"], []).append(e)
    if len(scenario["actors"]) > 1:
        probes["concurrent_pagers"] = 1
    cancelled_actors = {e["actor"] for e in history if e["k"] == "actor_cancelled"}
    for oid, op in ops.items():
        evs = by_op.get(oid, [])
        if not any(e["k"] == "invoke" for e in evs):
            continue
        viol.extend(judge_op(spec, codec, scenario, op, evs, probes))
        if viol:
            break
    return viol, probes


def _bump(p, k, n=1):
    p[k] = p.get(k, 0) + n


def _expected_items(codec, spec, m, cls, pages):
    """Per page: list of normalised expected items."""
    f = cls["items"]
    out = []
    for p in pages:
        v = p.get(f["name"])
        if v is None:
            out.append([])
        elif f.get("map"):
            out.append([("pair", k, x) for k, x in v["__map"]])
        else:
            out.append([("one", x) for x in v])
    return out


def _item_equal(codec, f, exp, obs):
    """exp: ("one", valuation) | ("pair", key, valuation); obs: engine.norm_item output."""
    def val_eq(ftype, type_name, ev, ov):
        if ftype == "message":
            if not isinstance(ov, dict) or "msg" not in ov:
                return False
            return codec.parse(type_name, bytes.fromhex(ov["msg"])) == values.to_dynamic(codec, type_name, ev)
        if ftype == "bytes":
            return isinstance(ov, dict) and ov.get("__b") == ev["__b"]
        return ov == ev and type(ov) is type(ev)
    if exp[0] == "pair":
        if not isinstance(obs, dict) or "pair" not in obs:
            return False
        vt = f["map"]["value"]
        return obs["pair"][0] == exp[1] and val_eq(vt["type"], vt.get("type_name"), exp[2], obs["pair"][1])
    return val_eq(f["type"], f.get("type_name"), exp[1], obs)


def judge_op(spec, codec, scenario, op, evs, probes):
    fs, s, m = find_method(spec, op["service"], op["method"])
    cls = classify(spec, m)
    path = f"/{fs['package']}.{s['name']}/{m['name']}"
    is_async = scenario["client"] == "async"

    def V(rule, msg):
        return [{"rule": rule, "op": op["id"], "method": path, "msg": msg}]

    # a second walk of the same pager is judged on its own (below); the first walk must look as if it were the only one
    second = None
    mark = next((i for i, e in enumerate(evs) if e["k"] == "second_pass"), None)
    if mark is not None:
        end = next((i for i, e in enumerate(evs) if e["k"] == "second_pass_end"), None)
        if end is None:       # cancelled during the second walk: everything after the mark belongs to it, except the outcome
            second = [e for e in evs[mark:] if e["k"] not in ("cancelled", "return", "raise")]
            evs = evs[:mark] + [e for e in evs[mark:] if e["k"] in ("cancelled", "return", "raise")]
        else:
            second = evs[mark:end + 1]
            evs = evs[:mark] + evs[end + 1:]
    if second is not None and cls is not None:
        _bump(probes, "pager_walked_twice")
        exp_items = [x for pg in _expected_items(codec, spec, m, cls, op["pages"]) for x in pg]
        got2 = [e["value"] for e in second if e["k"] == "item2"]
        endev = second[-1] if second[-1]["k"] == "second_pass_end" else None
        if endev is None:
            pass                      # the caller was cancelled during the second walk: nothing to demand of it
        elif endev.get("outcome") != "return":
            return V("second_walk_failed", f"walking the same pager a second time raised {endev and endev.get('cls')}: {endev and endev.get('msg')}")
        f2 = cls["items"]
        same = len(got2) == len(exp_items) and (bool(f2.get("map")) or all(_item_equal(codec, f2, x, o) for x, o in zip(exp_items, got2)))
        if endev is not None and got2 and not same:
            return V("second_walk_partial", f"a second walk of the same pager yielded {len(got2)} of the {len(exp_items)} items (it must yield "
                     f"nothing more, or every item of every page again, in order): {str(got2)[:200]}")
    pager_ev = next((e for e in evs if e["k"] == "pager"), None)
    outcome = next((e for e in evs if e["k"] in ("return", "raise", "cancelled")), None)
    attempts = [e for e in evs if e["k"] == "attempt"]
    servers = {e["n"]: e for e in evs if e["k"] == "server"}
    T, pol, retry_T = c09.call_policy(spec, fs, s, m, op.get("call") or {})

    if cls is None:
        _bump(probes, "nonpaged_method")
        if pager_ev is not None and pager_ev["has_pages"]:
            return V("classified_paged", f"{m['name']} does not satisfy the AIP-4233 field rule but the client returned "
                     f"a pager ({pager_ev['cls']})")
        return []
    if f_is := cls["items"]:
        if f_is.get("map"):
            _bump(probes, "map_paged")
        elif f_is["type"] != "message":
            _bump(probes, "scalar_paged")
    if outcome is None:
        return V("no_outcome", "the paged call neither returned, raised nor was cancelled")
    if pager_ev is None:
        # the very first fetch may legitimately fail before a pager exists
        pass
    elif not pager_ev["has_pages"]:
        return V("classified_unpaged", f"{m['name']} satisfies the AIP-4233 field rule but the client returned "
                 f"{pager_ev['cls']} without .pages")

    base = values.to_dynamic(codec, m["input"], op.get("request") or {})
    init_tok = (op.get("request") or {}).get("page_token") or ""
    pages = op["pages"]
    exp_items = _expected_items(codec, spec, m, cls, pages)
    f = cls["items"]
    if op.get("reuse_of"):
        _bump(probes, "request_reused")
    if op.get("nested"):
        _bump(probes, "reuse_during")

    # ---- walk the fetches
    i = 0                      # page being fetched
    tok = init_tok
    first_md = None
    new_fetch = True
    surfaced = None            # exception class expected to surface
    lost_reply = None          # index of a page whose reply body was lost (REST: 200 with zero bytes)
    done = False
    fetched = 0
    for a in attempts:
        if a.get("tr") != "rest" and a["path"] != path:
            return V("wrong_path", f"fetch went to {a['path']}")
        if done:
            return V("fetch_after_last_page", "a fetch was issued after the page with an empty next_page_token")
        if surfaced:
            return V("fetch_after_error", f"a fetch was issued after non-retryable {surfaced}")
        if a.get("tr") == "rest":
            from . import c04
            got = None
            for b in c04.bindings(m):
                if a["verb"].lower() == b["verb"]:
                    try:
                        r = c04.reverse(codec, m, b, a, bool((spec.get("options") or {}).get("rest-numeric-enums")), {})
                    except c04.Reject as rj:
                        return V("rest_" + rj.rule, str(rj))
                    if r is not None:
                        got = r[0]
                        break
            if got is None:
                return V("rest_no_binding", f"{a['verb']} {a['url']} instantiates no declared binding")
            _bump(probes, "rest_fetch")
        else:
            got = codec.parse(m["input"], bytes.fromhex(a["reqs"][0]))
        exp = type(base)()
        exp.CopyFrom(base)
        if tok != "" or i > 0:
            exp.page_token = tok      # (the first fetch carries the caller's own field untouched: for a proto3-optional
                                      #  page_token an unset cursor stays unset)
        if got != exp:
            if got.page_token != tok:
                return V("wrong_token", f"fetch of page {i} carried page_token={got.page_token!r}, expected {tok!r}"
                         + (" (request object reused by the caller: the pager must work on a copy)" if op.get("reuse_of") or op.get("nested") else ""))
            return V("request_changed", f"fetch of page {i}: request fields other than page_token differ from the caller's request")
        md = [kv for kv in a["md"]]
        if a.get("tr") == "rest":
            md = [kv for kv in md if kv[0].lower() in ("x-goog-request-params", "x-caller-tag")]
        if first_md is None:
            first_md = md
        elif md != first_md:
            return V("metadata_changed", f"fetch of page {i} carried metadata {md} but the first fetch carried {first_md}")
        if new_fetch:
            to = a["timeout"]
            if (T is None) != (to is None) or (T is not None and abs(to - T) > c09.TOL):
                return V("call_options_changed", f"first attempt of the fetch of page {i} carried timeout={to}; "
                         f"the call's timeout is {T}")
            if i >= 1 and (op.get("call") or {}):
                _bump(probes, "explicit_options_multi_page")
        sv = servers.get(a["n"])
        if sv is None:
            return V("harness_no_server_event", "attempt without server event")
        if sv.get("lost_body"):
            lost_reply = i
            break
        if sv.get("code"):
            code = sv["code"]
            if i >= 1 or True:
                _bump(probes, "fault_between_pages" if i >= 1 else "fault_first_page")
            if pol is not None and code in pol["codes"]:
                new_fetch = False
                continue
            surfaced = engine.CODE_TO_EXC[code].__name__
            if i >= 1:
                _bump(probes, "nonretryable_between_pages")
            continue
        # page i served
        fetched = i + 1
        tok = pages[i].get("next_page_token", "")
        if not tok:
            done = True
        i += 1
        new_fetch = True

    # ---- items / pages yielded
    if op.get("consume") == "pages":
        obs_pages = [e for e in evs if e["k"] == "page"]
        _bump(probes, "pages_consumed")
        for j, e in enumerate(obs_pages):
            if j >= len(pages):
                return V("extra_page", f"pager.pages yielded {len(obs_pages)} pages, server has {len(pages)}")
            if codec.parse(m["output"], bytes.fromhex(e["value"])) != values.to_dynamic(codec, m["output"], pages[j]):
                return V("page_content", f"page {j} yielded by pager.pages differs from what the server sent")
        n_obs = len(obs_pages)
        full = len(pages)
        exp_before_error = fetched
    else:
        obs = [e["value"] for e in evs if e["k"] == "item"]
        flat = [x for p in exp_items for x in p]
        if len(obs) > len(flat):
            return V("extra_items", f"{len(obs)} items yielded, server sent {len(flat)}")
        # compare page by page (multiset within a page for map-typed fields)
        pos = 0
        for pi, p in enumerate(exp_items):
            chunk = obs[pos:pos + len(p)]
            if f.get("map"):
                # in-page order of a map field is not defined by protobuf: compare as multisets
                rem = list(p)
                for o in chunk:
                    hit = next((x for x in rem if _item_equal(codec, f, x, o)), None)
                    if hit is None:
                        return V("item_mismatch", f"page {pi}: yielded map entry {str(o)[:120]} which the server did not send in this page (or sent once)")
                    rem.remove(hit)
            else:
                for x, o in zip(p, chunk):
                    if not _item_equal(codec, f, x, o):
                        return V("item_mismatch", f"page {pi}: yielded {str(o)[:120]} where the server sent {str(x)[:120]} "
                                 f"(items must come from the first repeated field '{f['name']}' in server order)")
            pos += len(p)
        n_obs = len(obs)
        full = len(flat)
        exp_before_error = sum(len(p) for p in exp_items[:fetched])
    tl = [p.get("next_page_token", "") for p in pages[:-1]]
    if len(set(tl)) < len(tl):
        _bump(probes, "repeated_cursor_value")
    if len(pages) >= 2 and fetched >= 2:
        _bump(probes, "multi_page")
        if is_async:
            _bump(probes, "async_multi_page")
        if scenario["client"] == "rest":
            _bump(probes, "rest_multi_page")
        if any(not exp_items[j] for j in range(1, min(fetched, len(pages)) - 1)) or (
                fetched >= 3 and any(not exp_items[j] for j in range(1, fetched - 1))):
            _bump(probes, "empty_middle_page")

    # ---- outcome
    if outcome["k"] == "cancelled":
        _bump(probes, "cancelled_mid_iteration")
        return []      # prefix already checked above
    stop = op.get("stop_after")
    if lost_reply is not None:
        _bump(probes, "rest_reply_body_lost")
        lost_something = bool(exp_items[lost_reply]) or lost_reply < len(pages) - 1
        if outcome["k"] != "raise" and lost_something and not (stop and n_obs == stop):
            return V("lost_reply_ignored", f"the fetch of page {lost_reply} was answered 200 with a zero-length body, yet the iteration ended "
                     f"normally after {n_obs} of {full} {'pages' if op.get('consume') == 'pages' else 'items'}: what the lost reply "
                     f"and the pages after it held was silently dropped")
        return []
    stop = op.get("stop_after")
    if surfaced:
        if outcome["k"] != "raise" or outcome.get("cls") != surfaced:
            return V("wrong_exception", f"non-retryable {surfaced} between pages must surface; got {outcome['k']} {outcome.get('cls')}")
        if n_obs != exp_before_error and not (stop and n_obs == stop):
            return V("items_before_error", f"{n_obs} yielded before the error, expected exactly {exp_before_error} (all items of the pages fetched so far)")
        return []
    if outcome["k"] == "raise":
        if outcome.get("cls") == "RetryError":
            return []     # retry deadline reached under scripted faults (sleeps are 0 here; only with tiny explicit deadlines)
        return V("unexpected_exception", f"iteration raised {outcome.get('cls')}: {outcome.get('msg')} with no non-retryable fault scripted")
    if stop:
        if n_obs != min(stop, full):
            return V("stop_after", f"consumer stopped after {stop} but {n_obs} recorded")
        return []
    if n_obs != full:
        return V("missing_items", f"iteration ended after {n_obs} of {full} "
                 f"{'pages' if op.get('consume') == 'pages' else 'items'} ({fetched} of {len(pages)} pages fetched)")
    if not done:
        return V("missing_fetch", f"only {fetched} of {len(pages)} pages were fetched")
    # ---- most recent page's attributes
    last = pages[-1]
    for e in evs:
        if e["k"] == "attr":
            if "error" in e:
                return V("attr_error", f"pager.{e['name']} raised {e['error']}")
            ref = pages[e["page"] - 1] if e.get("page") and e["page"] <= len(pages) else last
            if e.get("page"):
                _bump(probes, "attrs_read_between_page_fetches")
            want = ref.get(e["name"], "" if e["name"] in ("next_page_token", "etag") else 0)
            if e["value"] != want:
                return V("stale_attr", f"pager.{e['name']} == {e['value']!r} " + (f"while page {e['page']} is the most recent one"
                         if e.get("page") else "after iteration") + f"; that page has {want!r}")
    return []


def shape(scenario, history):
    faults = sum(1 for e in history if e["k"] == "server" and e.get("code"))
    pages = sum(1 for e in history if e["k"] == "server_page")
    kinds = tuple((e["k"], e.get("op")) for e in history)
    nt = faults > 0 or pages >= 2 or len(scenario["actors"]) > 1
    key = (scenario["client"], len(scenario["actors"]), pages, faults,
           tuple(sorted((e["k"]) for e in history if e["k"] in ("cancel", "server_refetch"))))
    return {"nontrivial": nt, "key": (key, tuple(k for k, _ in kinds)), "interleaving": kinds,
            "faults": {"grpc_status": faults, "cancellation": sum(1 for e in history if e["k"] == "cancel")}}


def signature(spec, scenario, rule):
    """Minimal-shape signature used to match known findings (never a seed)."""
    if rule == "world_unbuildable":
        for fs, s, m, cls in list_methods(spec):
            if cls is not None and cls["items"]["type"] == "enum" and not cls["items"].get("map"):
                return "paged response whose first repeated field is an enum"
        from ..world import find_message
        for fs, s, m, cls in list_methods(spec):
            if cls is not None and cls["items"].get("map") and cls["items"]["map"]["value"]["type"] in ("message", "enum"):
                vt = cls["items"]["map"]["value"]["type_name"]
                home = next((f["name"] for f in spec["files"] for mm in f.get("messages", []) + f.get("enums", [])
                             if "." + f["package"] + "." + mm["name"] == vt), None)
                if home is not None and home != fs["name"]:
                    return "map-typed paged field whose value type is defined in another file"
    return rule
