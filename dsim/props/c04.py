"""C04 - REST calls transcode each request exactly as its google.api.http rule prescribes.

Oracle: an independent REVERSE transcoder.  From the HTTP request captured at
HTTPAdapter.send (verb, URL path, query string, body) and the spec's http rule + input
descriptors it reconstructs the request message and demands: a declared binding matches; no
field comes from two places; the union equals the caller's request; required scalars outside
path/body travel in the query even when default-valued; JSON keys are the proto JSON names; enum
encoding and $alt follow rest-numeric-enums.

What the simulation adds to the (sampled) transcoding core: HTTP status faults with retried
attempts, server-streamed replies under seeded short reads, and SEQUENCES of calls on one
process (state carried between calls is only visible on the 2nd..nth call).
"""
import base64
import json
import re
import urllib.parse

from google.protobuf import descriptor as _d
from google.protobuf import json_format

from .. import grammar, values, engine, oracle, simhttp
from ..world import find_method, find_message
from . import c09, c07, c06

ID = "C04"
UNKNOWN_REPLY_FIELDS = True      # REST replies of a NEWER server (a field this client does not know) must decode all the same
FD = _d.FieldDescriptor

PROFILE = grammar.profile(
    p_http=0.93, p_get=0.9, p_list=0.7, p_create=0.8, p_update=0.8, p_delete=0.7, p_custom=0.9, p_multi_var_path=0.6,
    p_sstream=0.4, p_cstream=0.0, p_bidi=0.0, p_lro=0.0, p_service_config=0.7, p_yaml=0.05, p_routing=0.1,
    transports=["rest", "grpc+rest"], p_numeric_enums=0.5, p_additional_binding=0.5, p_reserved_field=0.1, p_reserved_path_var=0.3, p_required_enum=0.3, p_double_star_path=0.25, p_mixed_foreign_io=0.35, p_required_optional=0.3, p_body_only_in_additional=0.5, p_case_twin_fields=0.2, p_deep_path_var=0.2,
    p_second_file=0.6, p_stdlib_file_name=0.5, stdlib_file_names=["logging"])

BUDGET = {
    "quick": {"worlds": 150, "runs": 80, "wall_cap": 300, "world_wall": 90},
    "thorough": {"worlds": 4000, "runs": 100, "wall_cap": 2400, "world_wall": 120},
}
REQUIRED_PROBES = ["get", "post", "patch_or_put", "delete", "body_star", "body_field", "no_body", "additional_binding_used",
                   "nested_path_variable", "two_path_variables", "required_default_in_query", "numeric_enums", "enum_names",
                   "http_fault_retried", "http_fault_surfaced", "streamed_reply_short_reads", "repeat_call_same_rpc",
                   "unbound_method_refused", "no_binding_matches", "reply_decoded", "query_nested_or_repeated", "threaded_rest_callers", "rest_connection_error"]
ASSUMPTIONS = ["present-but-empty singular message fields are not generated (HTTP query strings cannot express them)",
               "path-variable values are drawn without '%', '?', '#' (URL quoting of those is requests'/api-core's concern)",
               "fields that http.proto forbids in the query (repeated messages, maps) are moved into the body by the "
               "grammar (body '*'), as an API author must"]
SAFE_SEGS = ["p1", "my-proj", "a b", "é", "seg.1", "~t", "UPPER", "x_y", "q+r", "k=v"]


def gen_spec(rng):
    spec = grammar.gen_api(rng, PROFILE)
    rest_safe(spec)
    return spec


def rest_safe(spec):
    """http.proto: only primitives (and singular messages) may travel in the query."""
    for fs, s, m in grammar.all_methods(spec):
        h = m.get("http")
        if not h or h.get("body") == "*":
            continue
        req = find_message(spec, m["input"])
        if req is None:
            continue
        pv = {v.split(".")[0] for v in path_vars(h["path"])}
        bad = False
        for f in req["fields"]:
            if f["name"] in pv or f["name"] == h.get("body"):
                continue
            if f.get("map") or (f.get("repeated") and f["type"] == "message"):
                bad = True
            if f["type"] == "message" and not f.get("repeated") and not f.get("map"):
                sub = find_message(spec, f["type_name"])
                if sub is not None and any(g.get("map") or (g.get("repeated") and g["type"] == "message") or g["type"] == "message"
                                           for g in sub["fields"]):
                    bad = True
        if bad:
            h["body"] = "*"
            if h["verb"] in ("get", "delete"):
                h["verb"] = "post"
            for a in h.get("additional", ()):
                a["body"] = "*"
                if a["verb"] in ("get", "delete"):
                    a["verb"] = "post"


def path_vars(path):
    return re.findall(r"\{([^}=]+)(?:=[^}]*)?\}", path)


def bindings(m):
    h = m["http"]
    return [h] + list(h.get("additional", ()))


# ------------------------------------------------------------------ forward: can any binding be instantiated?

def binding_matches(b, val):
    for mm in re.finditer(r"\{([^}=]+)(?:=([^}]*))?\}", b["path"]):
        var, pat = mm.group(1), mm.group(2) or "*"
        v = values.get_path(val, var)
        if not isinstance(v, str) or v == "":
            return False
        if c06.match_template("{x=" + pat + "}", v)[1] is None:
            return False
    if b.get("body") and b["body"] != "*":
        pass
    return True


# ------------------------------------------------------------------ reverse transcoder

class Reject(Exception):
    def __init__(self, rule, msg):
        super().__init__(msg)
        self.rule = rule


def match_url(b, url_path):
    """Match a URL path against a binding's template; returns {field_path: value} or None."""
    tpl = b["path"]
    verb_suffix = None
    mm = re.match(r"^(.*?)(:[A-Za-z]+)$", tpl) if not tpl.endswith("}") else None
    if mm:
        tpl, verb_suffix = mm.group(1), mm.group(2)
    if verb_suffix:
        if not url_path.endswith(verb_suffix):
            return None
        url_path = url_path[:-len(verb_suffix)]
    elif re.search(r":[A-Za-z]+$", url_path.rsplit("/", 1)[-1]) and False:
        return None
    tsegs = c06._split_top(tpl.lstrip("/"))
    usegs = [urllib.parse.unquote(x) for x in url_path.lstrip("/").split("/")]
    out = {}
    i = 0
    for t in tsegs:
        if t.startswith("{"):
            inner = t[1:-1]
            var, pat = inner.split("=", 1) if "=" in inner else (inner, "*")
            psegs = pat.split("/")
            cap = []
            for j, ps in enumerate(psegs):
                if ps == "**":
                    cap.extend(usegs[i:])
                    i = len(usegs)
                    break
                if i >= len(usegs):
                    return None
                if ps == "*":
                    if usegs[i] == "":
                        return None
                elif usegs[i] != ps:
                    return None
                cap.append(usegs[i])
                i += 1
            out[var] = "/".join(cap)
        else:
            if i >= len(usegs) or usegs[i] != t:
                return None
            i += 1
    if i != len(usegs):
        return None
    return out


def _field_by_json(desc, key):
    for f in desc.fields:
        if f.json_name == key:
            return f
    return None


def check_json_keys(desc, obj, numeric, where, probes):
    """Strict walk: keys must be the proto JSON names; enum encoding must follow the option."""
    if not isinstance(obj, dict):
        return
    full = desc.full_name
    if full in ("google.protobuf.Struct", "google.protobuf.Value", "google.protobuf.Any") or full in values.WKT_LEAF_JSON:
        return
    for k, v in obj.items():
        f = _field_by_json(desc, k)
        if f is None:
            raise Reject("json_key", f"{where}: key {k!r} is not the JSON name of any field of {full}")
        if values._is_map(f):
            vf = f.message_type.fields_by_name["value"]
            if isinstance(v, dict):
                for mv in v.values():
                    _check_leaf(vf, mv, numeric, where, probes)
        elif f.label == FD.LABEL_REPEATED:
            for x in v if isinstance(v, list) else []:
                _check_leaf(f, x, numeric, where, probes)
        else:
            _check_leaf(f, v, numeric, where, probes)


def _check_leaf(f, v, numeric, where, probes):
    if f.type == FD.TYPE_MESSAGE:
        if isinstance(v, dict):
            check_json_keys(f.message_type, v, numeric, where, probes)
    elif f.type == FD.TYPE_ENUM:
        if numeric and not isinstance(v, int):
            raise Reject("enum_encoding", f"{where}: enum {f.name} sent as {v!r}; rest-numeric-enums requires numbers")
        if not numeric and not isinstance(v, str):
            raise Reject("enum_encoding", f"{where}: enum {f.name} sent as {v!r}; enums must travel as names")
        probes["numeric_enums" if numeric else "enum_names"] = probes.get("numeric_enums" if numeric else "enum_names", 0) + 1


def query_to_dict(desc, pairs, numeric, probes):
    """[(dotted lowerCamel key, str)] -> (JSON-like dict for ParseDict, set of top-level field names)."""
    out = {}
    tops = set()
    for key, sval in pairs:
        parts = key.split(".")
        d, cur = desc, out
        i = 0
        while True:
            f = _field_by_json(d, parts[i])
            if f is None:
                raise Reject("query_key", f"query key {key!r}: {parts[i]!r} is not the JSON name of a field of {d.full_name}")
            if i == 0:
                tops.add(f.name)
            last = i == len(parts) - 1
            if values._is_map(f):
                mk = ".".join(parts[i + 1:])
                vf = f.message_type.fields_by_name["value"]
                cur.setdefault(parts[i], {})[mk] = _conv(vf, sval, numeric, key, probes)
                break
            if last:
                if f.type == FD.TYPE_MESSAGE and f.message_type.full_name not in values.WKT_LEAF_JSON:
                    raise Reject("query_message", f"query key {key!r} names a message field")
                v = _conv(f, sval, numeric, key, probes)
                if f.label == FD.LABEL_REPEATED:
                    cur.setdefault(parts[i], []).append(v)
                    probes["query_nested_or_repeated"] = probes.get("query_nested_or_repeated", 0) + 1
                else:
                    if parts[i] in cur:
                        raise Reject("query_duplicate", f"query key {key!r} appears twice for a singular field")
                    cur[parts[i]] = v
                break
            if f.type != FD.TYPE_MESSAGE or f.label == FD.LABEL_REPEATED:
                raise Reject("query_key", f"query key {key!r}: {parts[i]!r} is not a singular message")
            probes["query_nested_or_repeated"] = probes.get("query_nested_or_repeated", 0) + 1
            cur = cur.setdefault(parts[i], {})
            d = f.message_type
            i += 1
    return out, tops


def _conv(f, sval, numeric, key, probes):
    if f.type == FD.TYPE_BOOL:
        if sval not in ("true", "false"):
            raise Reject("query_value", f"query {key}={sval!r}: booleans must be 'true'/'false'")
        return sval == "true"
    if f.type == FD.TYPE_ENUM:
        isnum = re.fullmatch(r"-?\d+", sval) is not None
        if numeric != isnum:
            raise Reject("enum_encoding", f"query {key}={sval!r}: enum must travel as {'a number' if numeric else 'a name'}")
        probes["numeric_enums" if numeric else "enum_names"] = probes.get("numeric_enums" if numeric else "enum_names", 0) + 1
        return int(sval) if isnum else sval
    return sval


def reverse(codec, m, b, e, numeric, probes):
    """Reconstruct the request from one HTTP attempt under binding b.  Returns dynamic message."""
    desc = codec.desc(m["input"])
    u = urllib.parse.urlsplit(e["url"])
    pv = match_url(b, u.path)
    if pv is None:
        return None
    msg = codec.cls(m["input"])()
    # 1. path
    for var, v in pv.items():
        d, tgt = desc, msg
        parts = var.split(".")
        for p in parts[:-1]:
            tgt = getattr(tgt, p)
            d = d.fields_by_name[p].message_type
        setattr(tgt, parts[-1], v)
    path_tops = {v.split(".")[0] for v in pv}
    # 2. query
    pairs = urllib.parse.parse_qsl(u.query, keep_blank_values=True)
    alt = [v for k, v in pairs if k == "$alt"]
    pairs = [(k, v) for k, v in pairs if k != "$alt"]
    check_enums = numeric is not None
    numeric = bool(numeric)
    if check_enums and numeric and alt != ["json;enum-encoding=int"]:
        raise Reject("alt_param", f"rest-numeric-enums is on but $alt={alt}")
    if check_enums and not numeric and alt:
        raise Reject("alt_param", f"rest-numeric-enums is off but $alt={alt} was sent")
    if not check_enums:
        numeric = bool(alt)
    qd, qtops = query_to_dict(desc, pairs, numeric, probes)
    body_field = b.get("body") or ""
    # 3. body
    raw = bytes.fromhex(e["reqs"][0])
    btops = set()
    if body_field:
        try:
            bj = json.loads(raw.decode("utf-8")) if raw else {}
        except Exception as ex:  # noqa
            raise Reject("body_json", f"body is not JSON: {ex}")
        if body_field == "*":
            check_json_keys(desc, bj, numeric, "body", probes)
            btops = {_field_by_json(desc, k).name for k in bj}
            if pairs:
                raise Reject("query_with_body_star", f"body is '*' but query parameters {pairs[:3]} were sent")
            json_format.ParseDict(bj, msg)     # merges
        else:
            bf = desc.fields_by_name[body_field]
            check_json_keys(bf.message_type, bj, numeric, "body", probes)
            btops = {body_field}
            sub = getattr(msg, body_field)
            if bj:
                # an empty JSON object cannot tell "unset" from "present but empty": treated as unset
                sub.SetInParent()
                json_format.ParseDict(bj, sub)
    elif raw not in (b"", b"{}"):
        raise Reject("unexpected_body", f"binding has no body but {raw[:60]!r} was sent")
    # 4. duplication
    for a, bset, an, bn in ((path_tops, qtops, "path", "query"), (path_tops, btops, "path", "body"), (qtops, btops, "query", "body")):
        dup = set()
        for x in a & bset:
            # a nested path variable (widget.name) legitimately shares its top-level field with the body/query
            if an == "path" and any(v.startswith(x + ".") for v in pv):
                continue
            dup.add(x)
        if dup:
            raise Reject("duplicated_field", f"field(s) {sorted(dup)} travel both in the {an} and in the {bn}")
    for var in pv:
        if "." in var:
            # the nested leaf itself must not ALSO be in query/body
            top = var.split(".")[0]
            leafjson = ".".join(desc.fields_by_name[top].json_name if i == 0 else p for i, p in enumerate(var.split(".")))
            if any(k == leafjson or k.replace("_", "") == leafjson for k, _ in pairs):
                raise Reject("duplicated_field", f"path variable {var} also travels in the query")
    # 5. merge query
    if qd:
        json_format.ParseDict(qd, msg)
    # 6. required scalars outside path/body must be in the query even when default-valued
    if body_field != "*":
        req = None
        for f in desc.fields:
            pass
    return msg, pv, qtops, btops, pairs


# ------------------------------------------------------------------ scenarios

def candidates(spec):
    out = []
    for fs, s, m in grammar.all_methods(spec):
        if m.get("client_streaming"):
            continue
        if find_message(spec, m["input"]) is None and not m["input"].startswith((".google.iam", ".google.protobuf.Empty")):
            continue
        if m["output"] == ".google.longrunning.Operation":
            continue
        out.append((fs, s, m))
    return out


def gen_scenarios(spec, rng, n):
    from .. import protos
    cands = candidates(spec)
    if not cands:
        return []
    files, _ = protos.lower(spec)
    codec = protos.Codec(files)
    out = []
    for i in range(n):
        ops = []
        from ..rng import deep
        nops = rng.randint(1, 10 if deep() else 5)
        fs, s, m = rng.choice(cands)
        for j in range(nops):
            if rng.random() < 0.45:
                fs, s, m = rng.choice(cands)      # else: same RPC again (state carried between calls)
            ops.append(gen_op(spec, rng, codec, fs, s, m, f"o{j}"))
        engine.add_in_place_edits(rng, [{"ops": ops}])
        sc = {"client": "rest", "actors": [{"start": 0.0, "ops": ops}], "jitter_default": 0.0}
        if len(ops) >= 2 and rng.random() < 0.25:
            # REAL caller threads sharing the REST client (one AuthorizedSession, one set of stubs)
            nact = min(len(ops), rng.choice([2, 2, 3]))
            acts = [{"start": 0.0, "ops": []} for _ in range(nact)]
            for j, op in enumerate(ops):
                op.pop("mutate_of", None)              # (in-place edits are a single-caller behaviour)
                op["server"] = [dict(o, lat=rng.choice([0.0, 0.002, 0.01])) if "lat" not in o else o for o in op.get("server") or []]
                acts[j % nact]["ops"].append(op)
            sc["actors"] = acts
            sc["threads"] = True
            sc["sched_seed"] = rng.randrange(2 ** 32)
            # (jitter stays 0: this oracle does not model retry deadlines - C09 does - so backoff must take no time;
            #  the small reply latencies are what lets the threads overlap)
        if rng.random() < 0.4:
            # the application has REFRESHABLE credentials: an HTTP 401 (expired token) makes google-auth refresh them
            # and re-send the very same request below api-core's retry layer; the re-sent request is judged like any other
            sc["credentials"] = "refreshable"
            for op in ops:
                if op.get("kind") == "unary" and rng.random() < 0.35:
                    op["server"].insert(0, {"code": "UNAUTHENTICATED"})
                    op["token_expired_first"] = True
        for op in ops:
            if op.get("kind") == "unary" and not op.get("token_expired_first") and not op.get("surfaces") and rng.random() < 0.08:
                # fault: the pooled connection is dropped by the peer on the first send (no HTTP status at all)
                op["server"] = [{"conn_error": True}] + [o for o in op["server"] if not o.get("code")]
                op["conn_error_first"] = True
        out.append(sc)
    return out


def _fill_path_vars(rng, val, m, b, mode):
    for mm in re.finditer(r"\{([^}=]+)(?:=([^}]*))?\}", b["path"]):
        var, pat = mm.group(1), mm.group(2) or "*"
        if mode == "empty":
            cur = val
            parts = var.split(".")
            for p in parts[:-1]:
                cur = cur.get(p, {}) if isinstance(cur, dict) else {}
            if isinstance(cur, dict):
                cur.pop(parts[-1], None)
            continue
        segs = []
        for ps in pat.split("/"):
            if ps == "*":
                segs.append(rng.choice(SAFE_SEGS))
            elif ps == "**":
                # (http.proto: "zero or more segments"; api-core's matcher wants at least one -> one or more here)
                segs.extend(rng.choice(SAFE_SEGS) for _ in range(rng.randint(1, 3)))
            else:
                segs.append(ps)
        v = "/".join(segs)
        if mode == "mismatch":
            v = "zzz/" + v
        values.set_path(val, var, v)


def prune_empty(val):
    """Present-but-empty singular messages cannot be expressed in a query string (and only as '{}'
    in a body): such valuations are outside what HTTP/JSON can carry, so they are not generated."""
    for k in list(val):
        v = val[k]
        if isinstance(v, dict) and "__map" not in v and "__b" not in v:
            prune_empty(v)
            if not v:
                del val[k]
        elif isinstance(v, list):
            for x in v:
                if isinstance(x, dict) and "__map" not in x and "__b" not in x:
                    prune_empty(x)


def gen_op(spec, rng, codec, fs, s, m, oid):
    kind = grammar.method_kind(m)
    cls = c07.classify(spec, m) if kind == "unary" else None
    desc = codec.desc(m["input"])
    val = values.rand_valuation(rng, desc, 0, 3, rng.choice([0.3, 0.6, 0.9]))
    prune_empty(val)
    op = {"id": oid, "service": s["name"], "method": m["name"], "call": {}, "form": rng.choice(["msg", "dict"])}
    if m.get("http"):
        bs = bindings(m)
        b = bs[0] if len(bs) == 1 or rng.random() < 0.6 else rng.choice(bs[1:])
        mode = rng.choice(["ok"] * 9 + ["empty", "mismatch"])
        # make sure no *other* earlier binding accidentally matches first: clear their variables
        _fill_path_vars(rng, val, m, b, mode)
        op["binding_mode"] = mode
    # required scalars: sometimes leave default on purpose
    req = find_message(spec, m["input"])
    if req is not None:
        for f in req["fields"]:
            if f.get("required") and f["type"] not in ("message",) and not f.get("repeated") and f["name"] in val \
                    and f["name"] not in {v.split(".")[0] for v in path_vars((m.get("http") or {}).get("path", ""))} and rng.random() < 0.5:
                val.pop(f["name"])
    op["request"] = val
    T, pol, retry_T = c09.call_policy(spec, fs, s, m, {})
    script = []
    if kind == "unary" and rng.random() < 0.35:
        codes = [c for c in (pol["codes"] if pol else []) if c in simhttp.ROUND_TRIP]
        if codes and rng.random() < 0.7:
            for _ in range(rng.randint(1, 2)):
                script.append({"code": rng.choice(codes)})
        else:
            non = [c for c in simhttp.ROUND_TRIP if not pol or c not in pol["codes"]]
            if non:
                script.append({"code": rng.choice(non)})
                op["surfaces"] = True
    void = m["output"] == ".google.protobuf.Empty"
    from .c03 import tagged
    if kind == "sstream":
        op["kind"] = "sstream"
        n = rng.randint(0, 4)
        items = [tagged(rng, codec, m["output"], "item-%s-%d é\"]},{[" % (oid, i)) for i in range(n)]
        script.append({"items": items, "chunks": [rng.randint(1, 9) for _ in range(300)] if rng.random() < 0.8 else []})
    elif cls is not None:
        op["kind"] = "paged"
        pg = c07.gen_op(spec, rng, codec, fs, s, m, cls, oid, "rest")
        for k in ("pages", "read_attrs", "consume"):
            if k in pg:
                op[k] = pg[k]
        op["faults"] = {}
        # keep our request (with path vars), but caller token/page_size as generated here
        op["request"].pop("page_token", None)
    else:
        op["kind"] = "unary"
        script.append({"reply": {} if void else tagged(rng, codec, m["output"], f"reply-{oid}")})
    op["server"] = script
    return op


def server_factory(run):
    return c06.server_factory(run)


def execute(world, scenario):
    return engine.Run(world, scenario, server_factory).run()


def _bump(p, k, n=1):
    p[k] = p.get(k, 0) + n


def judge(spec, scenario, history):
    from .c07 import _codec
    codec = _codec(spec)
    ra = engine.runaway_violation(history)
    if ra:
        return ra, {}
    numeric = bool((spec.get("options") or {}).get("rest-numeric-enums"))
    ops = oracle.all_ops(scenario)
    by = oracle.events_by_op(history, ops)
    probes = {}
    if scenario.get("threads"):
        probes["threaded_rest_callers"] = 1
    seen_methods = set()
    for a in scenario["actors"]:
        for op in a["ops"]:
            if (op["service"], op["method"]) in seen_methods:
                probes["repeat_call_same_rpc"] = probes.get("repeat_call_same_rpc", 0) + 1
            seen_methods.add((op["service"], op["method"]))
    for oid, op in ops.items():
        evs = by.get(oid, [])
        if not any(e["k"] == "invoke" for e in evs):
            continue
        try:
            v = judge_op(spec, codec, scenario, op, evs, probes, numeric)
        except Reject as r:
            fs, s, m = find_method(spec, op["service"], op["method"])
            v = [{"rule": r.rule, "op": op["id"], "method": f"{s['name']}.{m['name']}", "msg": str(r)}]
        if v:
            return v, probes
    return [], probes


def judge_op(spec, codec, scenario, op, evs, probes, numeric):
    fs, s, m = find_method(spec, op["service"], op["method"])
    name = f"{s['name']}.{m['name']}"

    def V(rule, msg):
        return [{"rule": rule, "op": op["id"], "method": name, "msg": msg}]

    attempts = [e for e in evs if e["k"] == "attempt"]
    servers = {e["n"]: e for e in evs if e["k"] == "server"}
    outcome = next((e for e in evs if e["k"] in ("return", "raise")), None)
    if outcome is None:
        return V("no_outcome", "call neither returned nor raised")
    val = oracle.request_valuation(op)
    if not m.get("http"):
        _bump(probes, "unbound_method_refused")
        if outcome["k"] != "raise" or outcome.get("cls") != "NotImplementedError":
            return V("unbound_not_refused", f"method without http binding must raise NotImplementedError over REST; got {outcome['k']} {outcome.get('cls')}")
        if attempts:
            return V("unbound_sent", "an HTTP request was sent for a method without binding")
        return []
    bs = bindings(m)
    if not any(binding_matches(b, val) for b in bs):
        _bump(probes, "no_binding_matches")
        if attempts:
            return V("sent_without_binding", f"request {str(val)[:150]} matches no declared binding but {attempts[0]['verb']} {attempts[0]['url']} was sent")
        if outcome["k"] != "raise":
            return V("no_binding_no_error", "request matches no binding but the call returned")
        return []
    if not attempts:
        return V("nothing_sent", f"call ended with {outcome['k']} {outcome.get('cls')}: {outcome.get('msg')} without any HTTP request")
    desc = codec.desc(m["input"])
    exp = oracle.expected_request(codec, m, op)
    tokens = None
    if op["kind"] == "paged":
        tokens = [""] + [p.get("next_page_token", "") for p in op["pages"][:-1]]
    first_sig = None
    for idx, e in enumerate(attempts):
        want = exp
        if tokens is not None:
            # page fetch k carries the previous page's token; everything else unchanged
            served_before = sum(1 for x in evs if x["k"] == "server_page" and x["seq"] < e["seq"])
            want = type(exp)()
            want.CopyFrom(exp)
            tk = tokens[min(served_before, len(tokens) - 1)]
            if tk != "" or served_before > 0:
                want.page_token = tk
        hit = None
        for bi, b in enumerate(bs):
            if e["verb"].lower() != b["verb"]:
                continue
            r = reverse(codec, m, b, e, numeric, probes)
            if r is not None:
                hit = (bi, b, r)
                break
        if hit is None:
            return V("no_declared_binding", f"{e['verb']} {e['url']} instantiates none of the declared bindings "
                     f"{[(b['verb'], b['path']) for b in bs]}")
        bi, b, (got, pv, qtops, btops, pairs) = hit
        _bump(probes, {"get": "get", "post": "post", "patch": "patch_or_put", "put": "patch_or_put", "delete": "delete"}[b["verb"]])
        _bump(probes, "body_star" if b.get("body") == "*" else "body_field" if b.get("body") else "no_body")
        if bi > 0:
            _bump(probes, "additional_binding_used")
        if any("." in v for v in pv):
            _bump(probes, "nested_path_variable")
        if len(pv) >= 2:
            _bump(probes, "two_path_variables")
        bf = b.get("body")
        if bf and bf != "*" and want.HasField(bf) and getattr(want, bf).ByteSize() == 0:
            w2 = type(want)()
            w2.CopyFrom(want)
            w2.ClearField(bf)      # presence of an EMPTY body message is not expressible in HTTP/JSON
            want = w2
        # a REQUIRED field that is also proto3-`optional` and left unset: the property wants it in the query "even when
        # default-valued", and a query parameter necessarily reconstructs WITH presence - the two clauses pull against
        # each other here, so presence of a default value on such a field is not judged either way
        rq = find_message(spec, m["input"])
        for f0 in (rq or {"fields": []})["fields"]:
            if f0.get("required") and f0.get("optional") and f0["type"] not in ("message",) and not f0.get("repeated"):
                if got.HasField(f0["name"]) and not want.HasField(f0["name"]) and getattr(got, f0["name"]) in (0, 0.0, "", b"", False):
                    got.ClearField(f0["name"])
                    _bump(probes, "required_optional_default_presence_not_judged")
        if got != want:
            return V("request_not_reconstructed", f"attempt {e['n']}: {e['verb']} {e['url']} body={bytes.fromhex(e['reqs'][0])[:200]!r} "
                     f"reconstructs to {str(got)[:300]!r}; the caller's request is {str(want)[:300]!r}")
        # required scalars not bound to path/body must be in the query even when default
        if b.get("body") != "*":
            req = find_message(spec, m["input"])
            qkeys = {k.split(".")[0] for k, _ in pairs}
            for f in (req or {"fields": []})["fields"]:
                # "required SCALAR field": numeric / bool / string / bytes.  Enums are not scalar value types in the
                # proto3 language guide and the templates deliberately give them (like messages) no query default,
                # so a default-valued required enum is not demanded here (its ENCODING, when sent, still is).
                if f.get("required") and f["type"] not in ("message", "enum") and not f.get("repeated") and not f.get("map") \
                        and f["name"] not in {v.split(".")[0] for v in pv} and f["name"] != b.get("body"):
                    jn = desc.fields_by_name[f["name"]].json_name
                    if jn not in qkeys:
                        return V("required_default_missing", f"required field {f['name']} is bound to neither path nor body and must "
                                 f"travel in the query even when default-valued; query keys: {sorted(qkeys)}")
                    if f["name"] not in val:
                        _bump(probes, "required_default_in_query")
        sig = (e["verb"], e["url"], e["reqs"][0])
        if first_sig is None:
            first_sig = sig
        elif tokens is None and sig != first_sig:
            return V("retry_not_identical", "a retried attempt differs from the first attempt")
    # ---- outcome / reply
    if op.get("conn_error_first"):
        # the connection broke on the first send: the error may surface (it does on the pinned tree) or the client may
        # re-send; every request that WAS sent has been judged above
        _bump(probes, "rest_connection_error")
        return []
    script = op.get("server") or []
    last_sv = servers[attempts[-1]["n"]]
    if op["kind"] == "unary":
        faults = [o for o in script if o.get("code")]
        if op.get("surfaces"):
            _bump(probes, "http_fault_surfaced")
            if outcome["k"] != "raise":
                return V("fault_swallowed", f"HTTP {faults[-1]['code']} must surface; call returned")
            return []
        if faults:
            _bump(probes, "http_fault_retried")
            if len(attempts) != len(faults) + 1:
                return V("retry_count", f"{len(faults)} retryable HTTP fault(s) scripted; {len(attempts)} request(s) sent")
        elif len(attempts) != 1:
            return V("attempt_count", f"{len(attempts)} HTTP requests for one fault-free call")
        if outcome["k"] != "return":
            return V("unexpected_exception", f"call raised {outcome.get('cls')}: {outcome.get('msg')}")
        if m["output"] == ".google.protobuf.Empty":
            if outcome.get("value") is not None:
                return V("void_not_none", "Empty output must be returned as None")
            return []
        if outcome.get("value") is None or codec.parse(m["output"], bytes.fromhex(outcome["value"])) != codec.parse(m["output"], bytes.fromhex(last_sv["reply"])):
            return V("reply_mismatch", "decoded reply differs from the JSON the server sent")
        _bump(probes, "reply_decoded")
    elif op["kind"] == "sstream":
        items = [e["value"] for e in evs if e["k"] == "item"]
        sent = last_sv["items"] or []
        if outcome["k"] != "return":
            return V("unexpected_exception", f"stream raised {outcome.get('cls')}: {outcome.get('msg')}")
        if len(items) != len(sent):
            return V("stream_length", f"{len(items)} items decoded, server streamed {len(sent)}")
        for i, (it, sb) in enumerate(zip(items, sent)):
            if m["output"] == ".google.protobuf.Empty":
                continue
            if codec.parse(m["output"], bytes.fromhex(it["msg"])) != codec.parse(m["output"], bytes.fromhex(sb)):
                return V("stream_item", f"streamed item {i} differs from what the server sent")
        if (script[-1].get("chunks")):
            _bump(probes, "streamed_reply_short_reads")
    elif op["kind"] == "paged":
        if outcome["k"] != "return":
            return V("unexpected_exception", f"pager raised {outcome.get('cls')}: {outcome.get('msg')}")
        cls = c07.classify(spec, m)
        n_items = len([e for e in evs if e["k"] in ("item", "page")])
        want_n = len(op["pages"]) if op.get("consume") == "pages" else sum(c07._page_len(p, cls) for p in op["pages"])
        if n_items != want_n:
            return V("paged_items", f"{n_items} items/pages over REST, server has {want_n}")
    return []


def shape(scenario, history):
    faults = sum(1 for e in history if e["k"] == "server" and e.get("code"))
    att = [e for e in history if e["k"] == "attempt"]
    kinds = tuple((e["k"], e.get("op")) for e in history)
    urls = tuple(sorted((e.get("verb"), re.sub(r"[^/:?&=]+", "x", e.get("url", ""))) for e in att))
    return {"nontrivial": faults > 0 or len(att) >= 2, "key": (faults, len(att), urls), "interleaving": kinds,
            "faults": {"http_status": faults, "short_read_streams": sum(1 for e in att if e.get("stream"))}}


RESERVED_SAMPLE = {"type", "format", "license", "object", "class", "from", "in", "import", "max", "next", "filter"}


def _used_bindings(spec, scenario, op_id):
    """(method spec, index of the binding the caller's request selects) for the op(s) of a violation."""
    out = []
    for a in scenario["actors"]:
        for op in a["ops"]:
            if op_id is not None and op["id"] != op_id:
                continue
            try:
                _, _, m = find_method(spec, op["service"], op["method"])
            except KeyError:
                continue
            if not m.get("http"):
                continue
            val = oracle.request_valuation(op)
            bi = next((i for i, b in enumerate(bindings(m)) if binding_matches(b, val)), None)
            out.append((m, bi))
    return out


def signature(spec, scenario, rule, op_id=None):
    # Known finding 9 has two faces (one root cause: the required-defaults table of rest_base.py.j2 is computed from
    # the PRIMARY binding only).  The signature names the shape of the failing call itself: the request must select
    # an ADDITIONAL binding whose body differs in kind from the primary's; any other failure of these rules keeps
    # the bare rule as its signature and is reported as a VIOLATION.
    if rule == "required_default_missing" and scenario is not None:
        for m, bi in _used_bindings(spec, scenario, op_id):
            bs = bindings(m)
            if bi and bs[0].get("body") == "*" and bs[bi].get("body") != "*":
                return "primary binding with body '*' and an additional binding with a narrower body"
    if rule == "query_with_body_star" and scenario is not None:
        for m, bi in _used_bindings(spec, scenario, op_id):
            bs = bindings(m)
            if bi and bs[0].get("body") != "*" and bs[bi].get("body") == "*":
                return "primary binding with a narrower body and an additional binding with body '*'"
    if rule == "duplicated_field" and scenario is not None:
        used = {(op["service"], op["method"]) for a in scenario["actors"] for op in a["ops"] if op_id is None or op["id"] == op_id}
        for fs, s, m in grammar.all_methods(spec):
            if (s["name"], m["name"]) in used and m.get("http"):
                req = find_message(spec, m["input"]) or {"fields": []}
                reqd = {f["name"] for f in req["fields"] if f.get("required")}
                if any(v in RESERVED_SAMPLE and v in reqd for v in path_vars(m["http"]["path"])):
                    return "required path variable named by a reserved word"
    return rule
