"""C18 - auto-populated request ids (AIP-4235).

Call-time half (simulated): uuid4 entropy comes from a seeded seam, calls are made with the field
unset / empty / caller-set, as message / dict / flattened kwargs, under retry fault scripts and
with concurrent asyncio callers; the oracle reads the decoded wire request of EVERY attempt.
Generation-time half: fixed enumeration of invalid settings, run as a pre-flight (static,
reported separately).
"""
import copy
import re
import shutil
import tempfile

from .. import grammar, values, engine, oracle, specs, world as worldmod
from ..world import find_method, find_message
from . import c09

ID = "C18"
UNKNOWN_REPLY_FIELDS = True      # REST replies of a NEWER server (a field this client does not know) must decode all the same
UUID4 = re.compile(r"^[0-9a-f]{8}-[0-9a-f]{4}-4[0-9a-f]{3}-[89ab][0-9a-f]{3}-[0-9a-f]{12}$")

PROFILE = grammar.profile(
    p_auto_populate=0.7, p_create=0.9, p_custom=0.8, p_update=0.4, p_delete=0.5, p_get=0.5, p_list=0.2, p_yaml=1.0,
    p_sstream=0.1, p_cstream=0.0, p_bidi=0.0, p_lro=0.5, p_service_config=0.9, p_signature=0.85,
    transports=["grpc", "grpc+rest", "grpc+rest"])

BUDGET = {
    "quick": {"worlds": 100, "runs": 100, "wall_cap": 300, "world_wall": 90},
    "thorough": {"worlds": 2500, "runs": 120, "wall_cap": 2400, "world_wall": 120},
}
REQUIRED_PROBES = ["populated", "caller_value_kept", "explicit_empty_on_optional_kept", "empty_on_plain_populated",
                   "populated_on_retry_attempt", "concurrent_callers", "kwargs_form", "async_populated",
                   "two_fields", "decoy_untouched", "non_auto_method", "rest_call", "lro_method", "host_reseeds_global_prng", "caller_cancelled"]
ASSUMPTIONS = ["that all attempts of one invocation carry the same id is recorded (probe same_id_across_attempts) "
               "but not judged: the property does not state it",
               "re-submitting the very same request object is not judged (the library fills the caller's object in "
               "place, so whether the caller 'left it unset' the second time is ambiguous)"]


def gen_spec(rng):
    return grammar.gen_api(rng, PROFILE)


def auto_fields(spec, fs, s, m):
    """Auto-populated field names for a method, read from the YAML dict of the spec (oracle side)."""
    y = spec.get("service_yaml") or {}
    sel = f"{fs['package']}.{s['name']}.{m['name']}"
    out = []
    for e in (y.get("publishing") or {}).get("method_settings", []):
        if e.get("selector") == sel:
            out = list(e.get("auto_populated_fields") or [])
    return out


def unary_methods(spec):
    out = []
    for fs, s, m in c09.eligible_methods(spec):
        if find_message(spec, m["input"]) is not None:
            out.append((fs, s, m, auto_fields(spec, fs, s, m)))
    # long-running methods are unary RPCs too (Create*/Rebuild* with request_id is the classic AIP-4235 case)
    for fs, s, m in grammar.all_methods(spec):
        if m["output"] == ".google.longrunning.Operation" and not m.get("client_streaming") and find_message(spec, m["input"]) is not None:
            out.append((fs, s, m, auto_fields(spec, fs, s, m)))
    return out


def gen_scenarios(spec, rng, n):
    um = unary_methods(spec)
    if not um:
        return []
    auto = [x for x in um if x[3]]
    out = []
    for i in range(n):
        client = rng.choice(["sync", "async", "async"] + (["rest", "rest"] if "rest" in spec["options"]["transport"] else []))
        if "grpc" not in spec["options"]["transport"]:
            client = "rest"
        from ..rng import deep
        nact = 1 if client != "async" else rng.choice([1, 2, 4, 6, 8] if deep() else [1, 2, 3, 4])
        threads = client != "async" and rng.random() < 0.2     # REAL caller threads sharing one sync/REST client
        if threads:
            nact = rng.choice([2, 2, 3])
        actors = [{"start": 0.0, "ops": []} for _ in range(nact)]
        nops = rng.randint(1, 4) if nact == 1 else nact + rng.randint(0, 2)
        for j in range(nops):
            fs, s, m, af = rng.choice(auto) if auto and rng.random() < 0.85 else rng.choice(um)
            if client == "rest" and not m.get("http"):
                continue
            actors[j % nact]["ops"].append(gen_op(spec, rng, fs, s, m, af, f"o{j}", client))
        engine.add_in_place_edits(rng, actors)
        for a in actors:
            new_ops = []
            for op in a["ops"]:
                new_ops.append(op)
                if op.get("rejected") and op.get("form") == "msg" and op["kind"] == "unary" and rng.random() < 0.6:
                    # the caller catches the error and submits the SAME request object again, untouched
                    import copy
                    again = copy.deepcopy(op)
                    again.update(id=op["id"] + "again", resubmit_of=op["id"], server=[{"lat": 0.0, "reply": {}}])
                    again.pop("rejected", None)
                    again.pop("mutate_of", None)
                    new_ops.append(again)
            a["ops"] = new_ops
        if rng.random() < 0.25:
            # the host application re-seeds the global PRNG with the same value before every call
            svc0 = um[0][1]["name"]
            for a in actors:
                new = []
                for op in a["ops"]:
                    new.append({"id": "rs-" + op["id"], "kind": "reseed", "seed": 1234, "service": svc0, "method": "-"})
                    new.append(op)
                a["ops"] = new
        sc = {"client": client, "actors": [a for a in actors if a["ops"]], "jitter_default": rng.choice([0.0, 0.0, 0.5, 1.0]),
              "entropy_seed": rng.randrange(2**32)}     # jitter > 0: backoff sleeps take time, other callers run inside them
        if threads and len(sc["actors"]) > 1:
            sc["threads"] = True
            sc["sched_seed"] = rng.randrange(2 ** 32)
        if len(sc["actors"]) > 1 and rng.random() < 0.4:
            sc["clients"] = "per_actor"        # several clients in one process: ids must still be fresh
        if client == "rest" and rng.random() < 0.4:
            # refreshable credentials + an expired token: google-auth answers the HTTP 401 by refreshing and RE-SENDING the
            # prepared request below api-core's retry layer; the re-sent request must still carry the id
            sc["credentials"] = "refreshable"
            for a in sc["actors"]:
                for op in a["ops"]:
                    if op.get("kind") == "unary" and rng.random() < 0.4:
                        op["server"].insert(0, {"code": "UNAUTHENTICATED", "lat": 0.0})
        if client == "async" and len(sc["actors"]) > 1 and rng.random() < 0.2:
            # fault: one caller's task is cancelled at an arbitrary instant (possibly between population and send)
            sc["cancels"] = [{"actor": rng.randrange(len(sc["actors"])), "at": rng.choice([0.0, 0.001, 0.004, 0.02, 0.1])}]
        out.append(sc)
    return out


def gen_op(spec, rng, fs, s, m, af, oid, client="sync"):
    req = find_message(spec, m["input"])
    val = {}
    fields = {f["name"]: f for f in req["fields"]}
    for n in ("name", "parent"):
        if n in fields and fields[n]["type"] == "string" and rng.random() < 0.8:
            val[n] = "projects/p1/things/t1"
    if client == "rest" and m.get("http"):
        from . import c04
        c04._fill_path_vars(rng, val, m, m["http"], "ok")
    if "trace_id" in fields and rng.random() < 0.3:
        val["trace_id"] = "caller-trace"
    state = {}
    for f in af:
        c = rng.random()
        if c < 0.5:
            state[f] = "unset"
        elif c < 0.75:
            state[f] = "empty"
            val[f] = ""        # explicit empty string (kept in the valuation on purpose)
        else:
            state[f] = "caller"
            val[f] = rng.choice(["my-id-17", "not a uuid", "00000000-0000-0000-0000-000000000000", f"id-{oid}"])
    # calling form
    sig_fields = None
    for sg in m.get("signatures") or []:
        parts = sg.split(",")
        if all("." not in p and p in fields for p in parts):
            sig_fields = parts
            break
    form = rng.choice(["msg", "dict", "dict"])
    op = {"id": oid, "kind": "unary", "service": s["name"], "method": m["name"], "call": {}, "auto_state": state}
    if sig_fields and rng.random() < 0.4:
        simple = {k: v for k, v in val.items() if k in sig_fields and isinstance(v, (str, int, bool))}
        if set(val) <= set(simple):
            form = "kwargs"
            op["kwargs"] = {k: {"path": k, "value": v} for k, v in simple.items()}
    op["form"] = form
    op["request"] = val
    # faults: retried attempts under the method's default retry
    T, pol, retry_T = c09.call_policy(spec, fs, s, m, {})
    script = []
    codes = pol["codes"] if pol else []
    if client == "rest":
        from .. import simhttp
        codes = [c for c in codes if c in simhttp.ROUND_TRIP]
    if codes and rng.random() < 0.5:
        for _ in range(rng.randint(1, 3)):
            script.append({"code": rng.choice(codes), "lat": rng.choice([0.0, 0.01])})
    if rng.random() < 0.15:
        # the call is finally REJECTED (a 4xx): whatever the client does on that path must not touch other callers
        non = [c for c in ("INVALID_ARGUMENT", "NOT_FOUND", "ALREADY_EXISTS", "PERMISSION_DENIED", "FAILED_PRECONDITION", "OUT_OF_RANGE")
               if c not in (pol["codes"] if pol else [])]
        if client == "rest":
            non = [c for c in non if c in ("NOT_FOUND",)]
        if non:
            script.append({"lat": rng.choice([0.0, 0.02, 0.1]), "code": rng.choice(non)})
            op["rejected"] = True
    if not op.get("rejected"):
        script.append({"lat": rng.choice([0.0, 0.0, 0.02, 0.1]), "reply": {}})
    op["server"] = script
    if m["output"] == ".google.longrunning.Operation":
        op["kind"] = "lro"
        op["raw"] = m.get("lro") is None
        op["initial_done"] = True
        op["op_name"] = f"projects/p1/operations/{oid}"
        op["final"] = {"error": {"code": "ABORTED", "message": "x"}}     # resolves without polling, result not judged here
        op["send_metadata"] = False
        op["meta_vals"] = [{}]
        op["server"] = [x for x in script if x.get("code")]
    return op


def server_factory(run):
    from . import c08
    lro = c08.server_factory(run)
    plain = engine.scripted_server(run)

    def serve(call):
        op = run.ops.get(call["op"])
        if op is not None and op["kind"] == "lro":
            faults = op.get("server") or []
            if call["n"] <= len(faults):
                return {"lat": faults[call["n"] - 1].get("lat", 0.0), "code": faults[call["n"] - 1]["code"]}
            return lro(call)
        return plain(call)
    return serve


def execute(world, scenario):
    return engine.Run(world, scenario, server_factory).run()


def judge(spec, scenario, history):
    from .c07 import _codec
    codec = _codec(spec)
    ra = engine.runaway_violation(history)
    if ra:
        return ra, {}
    ops = oracle.all_ops(scenario)
    by = oracle.events_by_op(history, ops)
    probes = {}
    if len(scenario["actors"]) > 1:
        probes["concurrent_callers"] = 1
    if any(e["k"] == "reseed" for e in history):
        probes["host_reseeds_global_prng"] = 1
    if any(e["k"] == "actor_cancelled" for e in history):
        probes["caller_cancelled"] = 1
    # every invocation must reach the wire (or fail with the injected status): an exception raised by the
    # population code itself (before anything is sent) is a violation, not a skipped run
    for oid, op in ops.items():
        evs = by.get(oid, [])
        oc = next((e for e in evs if e["k"] in ("return", "raise")), None)
        if oc is not None and oc["k"] == "raise" and not oc.get("api_error") and oc.get("cls") != "RetryError":
            return [{"rule": "call_failed", "op": oid, "method": op["method"], "msg": f"{scenario['client']} call raised "
                     f"{oc.get('cls')}: {oc.get('msg')} ({len([e for e in evs if e['k'] == 'attempt'])} attempt(s) were sent)"}], probes
    seen = {}     # uuid -> (op id, field) that first carried it
    for e in history:          # global event order
        if e["k"] != "attempt" or e.get("op") not in ops:
            continue
        op = ops[e["op"]]
        fs, s, m = find_method(spec, op["service"], op["method"])
        af = auto_fields(spec, fs, s, m)
        path = f"/{fs['package']}.{s['name']}/{m['name']}"

        def V(rule, msg):
            return [{"rule": rule, "op": op["id"], "method": path, "msg": msg}], probes
        if e.get("tr") == "rest":
            from . import c04
            numeric = bool((spec.get("options") or {}).get("rest-numeric-enums"))
            got = None
            for b in c04.bindings(m):
                if e["verb"].lower() == b["verb"]:
                    try:
                        r = c04.reverse(codec, m, b, e, numeric, {})
                    except c04.Reject as rj:
                        return V("rest_" + rj.rule, str(rj))
                    if r is not None:
                        got = r[0]
                        break
            if got is None:
                return V("rest_no_binding", f"{e['verb']} {e['url']} matches no binding")
            _bump(probes, "rest_call")
        elif e["path"] != path:
            continue
        else:
            got = codec.parse(m["input"], bytes.fromhex(e["reqs"][0]))
        exp = oracle.expected_request(codec, m, op)
        req = find_message(spec, m["input"])
        fields = {f["name"]: f for f in req["fields"]}
        if not af:
            _bump(probes, "non_auto_method")
        if op["kind"] == "lro" and af:
            _bump(probes, "lro_method")
        if len(af) > 1:
            _bump(probes, "two_fields")
        for f in af:
            st = (op.get("auto_state") or {}).get(f, "unset")
            wire = getattr(got, f)
            optional = bool(fields[f].get("optional"))
            if st == "caller":
                if wire != op["request"][f]:
                    return V("caller_value_altered", f"caller set {f}={op['request'][f]!r}; attempt {e['n']} carried {wire!r}")
                _bump(probes, "caller_value_kept")
            elif st == "empty" and optional and e.get("tr") == "rest" and fields[f]["name"] not in (m.get("http") or {}).get("body", "x"):
                # explicit presence of an EMPTY optional string in a query string: carried as "f=" (checked by C04's
                # reconstruction); the value must still not be replaced by a UUID
                if wire != "" or not got.HasField(f):
                    return V("explicit_empty_altered", f"caller explicitly set optional {f}=''; attempt {e['n']} carried {wire!r} "
                             f"(present={got.HasField(f)}): an explicitly empty optional string travels as '{f}=' in the query")
                _bump(probes, "explicit_empty_on_optional_kept")
            elif st == "empty" and optional:
                if wire != "" or not got.HasField(f):
                    return V("explicit_empty_altered", f"caller explicitly set optional {f}=''; attempt {e['n']} carried "
                             f"{wire!r} (present={got.HasField(f)})")
                _bump(probes, "explicit_empty_on_optional_kept")
            else:
                if not UUID4.match(wire):
                    return V("not_uuid4", f"{f} was left {'empty' if st == 'empty' else 'unset'} by the caller; attempt "
                             f"{e['n']} carried {wire!r}, which is not an RFC-4122 version-4 UUID")
                owner = seen.setdefault(wire, (op["id"], f))
                if op.get("resubmit_of") is not None and owner == (op["resubmit_of"], f):
                    # the same object, untouched, after an error: it still holds the id the client wrote into it; whether
                    # the re-submission keeps that id or gets a new one is not stated - it must be a UUID4 either way
                    _bump(probes, "resubmitted_same_object_after_error")
                elif owner != (op["id"], f):
                    return V("uuid_not_fresh", f"{f}={wire} was already sent as {owner[1]} of invocation {owner[0]}: every "
                             f"auto-populated field of every invocation needs its own fresh UUID")
                _bump(probes, "populated")
                if st == "empty":
                    _bump(probes, "empty_on_plain_populated")
                if e["n"] > 1:
                    _bump(probes, "populated_on_retry_attempt")
                if scenario["client"] == "async":
                    _bump(probes, "async_populated")
                if op.get("form") == "kwargs":
                    _bump(probes, "kwargs_form")
                first = next(x for x in by[op["id"]] if x["k"] == "attempt")
                if e is not first and e.get("tr") != "rest":
                    g0 = codec.parse(m["input"], bytes.fromhex(first["reqs"][0]))
                    _bump(probes, "same_id_across_attempts" if getattr(g0, f) == wire else "id_changed_across_attempts")
            # neutralise for the remaining-fields comparison
            got.ClearField(f)
            exp.ClearField(f)
        if "trace_id" in fields and "trace_id" not in af:
            _bump(probes, "decoy_untouched")
        if got != exp:
            return V("request_changed", f"attempt {e['n']}: fields other than the auto-populated ones differ from the caller's request")
    return [], probes


def _bump(p, k, n=1):
    p[k] = p.get(k, 0) + n


def shape(scenario, history):
    faults = sum(1 for e in history if e["k"] == "server" and e.get("code"))
    kinds = tuple((e["k"], e.get("op")) for e in history)
    states = tuple(sorted(str(sorted((op.get("auto_state") or {}).items())) + op.get("form", "") for a in scenario["actors"] for op in a["ops"]))
    return {"nontrivial": faults > 0 or len(scenario["actors"]) > 1, "key": (scenario["client"], len(scenario["actors"]), faults, states),
            "interleaving": kinds, "faults": {"status_code": faults, "host_reseeds_global_prng": sum(1 for e in history if e["k"] == "reseed")}}


# ------------------------------------------------------------------ generation-time half (static pre-flight)

def preflight():
    P = "." + specs.PKG
    SVC = specs.PKG + ".WidgetService"

    def spec_with(settings, mutate=None):
        sp = specs.widget_spec("grpc")
        sp["service_yaml"]["publishing"] = {"method_settings": settings}
        if mutate:
            mutate(sp)
        return sp

    def msg(sp, name):
        return next(m for m in sp["files"][0]["messages"] if m["name"] == name)

    def add_field(name, f):
        def mut(sp):
            msg(sp, name)["fields"].append(f)
        return mut

    def set_field(name, fname, **kw):
        def mut(sp):
            for f in msg(sp, name)["fields"]:
                if f["name"] == fname:
                    f.update(kw)
        return mut

    def add_foreign_method(sp):
        # a method whose request message lives in ANOTHER proto package (google.iam.v1): its `resource` is a REQUIRED string
        # without the UUID4 format, so naming it in auto_populated_fields must be rejected like any other ineligible field
        sp["files"][0]["services"][0]["methods"].append({"name": "SetWidgetPolicy", "input": ".google.iam.v1.SetIamPolicyRequest",
                                                         "output": ".google.iam.v1.Policy"})

    def selective(allow):
        def mut(sp):
            sp["service_yaml"]["publishing"]["library_settings"] = [
                {"version": specs.PKG, "python_settings": {"common": {"selective_gapic_generation": {"methods": allow}}}}]
        return mut

    def poke_with_unannotated_request_id(sp):
        # PokeWidget gets its own request type with a `request_id` that is NOT annotated UUID4
        f0 = sp["files"][0]
        f0["messages"].append({"name": "PokeWidgetRequest", "fields": [{"name": "name", "number": 1, "type": "string"},
                                                                      {"name": "request_id", "number": 2, "type": "string"}]})
        for m in f0["services"][0]["methods"]:
            if m["name"] == "PokeWidget":
                m["input"] = P + ".PokeWidgetRequest"
    PK = {"selector": SVC + ".PokeWidget", "auto_populated_fields": ["request_id"]}
    A = {"selector": SVC + ".CreateWidget", "auto_populated_fields": ["request_id"]}
    B = {"selector": SVC + ".GetWidget"}
    C = {"selector": SVC + ".DeleteWidget"}
    cases = [
        ("valid_one_field", spec_with([A]), False),
        ("valid_with_other_entries", spec_with([B, A, C]), False),
        ("valid_optional_field", spec_with([A], set_field("CreateWidgetRequest", "request_id", optional=True)), False),
        ("valid_two_fields", spec_with([{"selector": SVC + ".CreateWidget", "auto_populated_fields": ["request_id", "token2"]}],
                                       add_field("CreateWidgetRequest", {"name": "token2", "number": 9, "type": "string", "uuid4": True})), False),
        ("unknown_method", spec_with([{"selector": SVC + ".NoSuchMethod", "auto_populated_fields": ["request_id"]}]), True),
        ("server_streaming_method", spec_with([{"selector": SVC + ".WatchWidgets", "auto_populated_fields": ["filter"]}],
                                              set_field("ListWidgetsRequest", "filter", uuid4=True)), True),
        ("bidi_streaming_method", spec_with([{"selector": SVC + ".Chat", "auto_populated_fields": ["name"]}],
                                            set_field("Widget", "name", uuid4=True)), True),
        ("missing_field", spec_with([{"selector": SVC + ".CreateWidget", "auto_populated_fields": ["nonexistent"]}]), True),
        ("nested_field", spec_with([{"selector": SVC + ".CreateWidget", "auto_populated_fields": ["widget.name"]}],
                                   set_field("Widget", "name", uuid4=True)), True),
        ("non_string_field", spec_with([{"selector": SVC + ".CreateWidget", "auto_populated_fields": ["count"]}],
                                       add_field("CreateWidgetRequest", {"name": "count", "number": 9, "type": "int32"})), True),
        ("required_field", spec_with([A], set_field("CreateWidgetRequest", "request_id", required=True)), True),
        ("unannotated_field", spec_with([A], set_field("CreateWidgetRequest", "request_id", uuid4=False)), True),
        ("one_bad_of_two_fields", spec_with([{"selector": SVC + ".CreateWidget", "auto_populated_fields": ["request_id", "parent"]}]), True),
        ("same_field_name_bad_in_second_selector", spec_with([A, PK], poke_with_unannotated_request_id), True),
        ("same_field_name_bad_in_first_selector", spec_with([PK, A], poke_with_unannotated_request_id), True),
        ("same_field_name_bad_selector_alone", spec_with([PK], poke_with_unannotated_request_id), True),
        ("lro_entry_with_long_running_and_good_field", spec_with([dict(A, long_running={"initial_poll_delay": "1s", "max_poll_delay": "20s", "total_poll_timeout": "600s", "poll_delay_multiplier": 1.5})]), False),
        ("lro_entry_with_long_running_and_bad_field", spec_with([{"selector": SVC + ".CreateWidget", "auto_populated_fields": ["parent"],
                                                                  "long_running": {"initial_poll_delay": "1s", "max_poll_delay": "20s", "total_poll_timeout": "600s", "poll_delay_multiplier": 1.5}}]), True),
        ("selective_generation_valid", spec_with([A], selective([SVC + ".CreateWidget", SVC + ".GetWidget"])), False),
        ("selective_generation_unknown_method", spec_with([{"selector": SVC + ".NoSuchMethod", "auto_populated_fields": ["request_id"]}],
                                                          selective([SVC + ".CreateWidget", SVC + ".GetWidget"])), True),
        ("selective_generation_bad_field", spec_with([{"selector": SVC + ".CreateWidget", "auto_populated_fields": ["parent"]}],
                                                     selective([SVC + ".CreateWidget", SVC + ".GetWidget"])), True),
        ("repeated_string_field", spec_with([{"selector": SVC + ".CreateWidget", "auto_populated_fields": ["tokens"]}],
                                            add_field("CreateWidgetRequest", {"name": "tokens", "number": 9, "type": "string", "repeated": True, "uuid4": True})), True),
        ("foreign_request_bad_field", spec_with([{"selector": SVC + ".SetWidgetPolicy", "auto_populated_fields": ["resource"]}], add_foreign_method), True),
        ("duplicate_adjacent", spec_with([A, dict(A)]), True),
        ("duplicate_separated", spec_with([A, B, dict(A)]), True),
        ("duplicate_separated_empty_last", spec_with([A, B, {"selector": SVC + ".CreateWidget"}]), True),
        ("duplicate_other_selector", spec_with([A, B, C, dict(B)]), True),
    ]
    out, viol = [], []
    d = tempfile.mkdtemp(prefix="gapic-dsim-pre-", dir=worldmod.scratch_root())
    try:
        for label, sp, must_fail in cases:
            try:
                worldmod.generate(sp, d)
                failed = None
            except Exception as e:  # noqa
                failed = f"{type(e).__name__}: {str(e)[:100]}"
            out.append({"case": label, "must_be_rejected": must_fail, "rejected": failed})
            if must_fail and failed is None:
                viol.append({"rule": "invalid_settings_accepted", "msg": f"method settings case '{label}' was accepted at generation time",
                             "spec": sp, "scenario": None})
            if not must_fail and failed is not None:
                viol.append({"rule": "world_unbuildable", "msg": f"valid method settings case '{label}' rejected: {failed}",
                             "spec": sp, "scenario": None})
    finally:
        shutil.rmtree(d, ignore_errors=True)
    return {"cases": out, "violations": viol, "kind": "static enumeration (not counted among simulated runs)"}


def signature(spec, scenario, rule):
    return rule
