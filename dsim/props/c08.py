"""C08 - long-running methods return futures typed by google.longrunning.operation_info.

Histories: the server-side operation completes at a scripted simulated time; GetOperation replies
"not done" (with changing metadata) before and "done" (response | error) after it; scripted
status faults hit individual poll arrivals.  Everything runs on the virtual clock, so minutes of
polling cost milliseconds.  Oracle: typed-future model (polling target, types, values, error
mapping, no poll after done, bounded liveness after done).
"""
import copy
import os
import re
import shutil
import tempfile

from .. import grammar, values, engine, specs, world as worldmod
from ..world import find_method
from . import c09

ID = "C08"
GET_OP = "/google.longrunning.Operations/GetOperation"
# api-core behaviour (trusted, not this repository's): which status codes on a poll are absorbed.
#   sync : OperationsClient.get_operation's default Retry retries UNAVAILABLE / DEADLINE_EXCEEDED;
#   async: AsyncOperation passes its polling AsyncRetry (predicate: not-complete | 429 | 500 | 502) as
#          the RPC's retry, so INTERNAL / RESOURCE_EXHAUSTED are polled through and UNAVAILABLE surfaces.
#   rest : api-core's REST operations client retries ServiceUnavailable only (HTTP 503)
POLL_ABSORBED = {"sync": {"UNAVAILABLE", "DEADLINE_EXCEEDED"}, "async": {"INTERNAL", "RESOURCE_EXHAUSTED"},
                 "rest": {"UNAVAILABLE"}}
# largest polling interval of api-core's default polling policy (sync: Retry 1 s x1.5 -> 20 s;
# asyncio: AsyncRetry default 1 s x2 -> 60 s)
MAX_POLL_INTERVAL = {"sync": 20.0, "async": 60.0, "rest": 20.0}

PROFILE = grammar.profile(
    lro_variants=True, p_lro=1.0, p_raw_op=0.25, p_list=0.15, p_get=0.4, p_create=0.1, p_update=0.1, p_delete=0.3,
    p_custom=0.1, p_sstream=0.0, p_cstream=0.0, p_bidi=0.0, p_service_config=0.6, p_second_file=0.6,
    resources=(1, 3), transports=["grpc", "grpc+rest", "grpc+rest"], p_google_api_ns=0.15,
    common_file_names=["resources", "resources", "common", "operation", "<noun>", "<noun>"], p_signature=0.9,
    p_nested_lro_types=0.2)

BUDGET = {
    "quick": {"worlds": 120, "runs": 100, "wall_cap": 300, "world_wall": 90},
    "thorough": {"worlds": 3000, "runs": 120, "wall_cap": 2400, "world_wall": 120},
}
REQUIRED_PROBES = ["not_done_polls", "error_history", "response_history", "unimported_type", "fully_qualified_name",
                   "relative_name", "empty_response", "raw_operation", "poll_fault_retried", "poll_fault_surfaced",
                   "initial_done", "async_future", "metadata_checked", "long_poll_over_60s", "concurrent_futures", "rest_future",
                   "rest_polls", "rest_poll_rule_with_additional_bindings", "caller_cancelled_while_polling", "long_poll_outage_ridden_out",
                   "relative_nested_name", "initial_operation_with_unknown_metadata_type"]
ASSUMPTIONS = ["api-core's default polling policy (1 s x1.5 up to 20 s, 900 s budget) is the reference for liveness"]


def gen_spec(rng):
    return grammar.gen_api(rng, PROFILE)


def resolve(name, pkg):
    """operation_info type name -> full name, relative to the method's package."""
    # (`Outer.Inner` is a NESTED type named relative to the package: package components are lower-case, message names
    # start with a capital, in this grammar as in googleapis)
    return name if "." in name and not name[0].isupper() else f"{pkg}.{name}"


def _get_operation_rule(spec):
    return next((r for r in ((spec.get("service_yaml") or {}).get("http") or {}).get("rules", [])
                 if r["selector"] == "google.longrunning.Operations.GetOperation"), None)


def lro_methods(spec):
    out = []
    for fs, s, m in grammar.all_methods(spec):
        if m["output"] == ".google.longrunning.Operation":
            out.append((fs, s, m))
    return out


def _home_file(spec, full):
    for fs in spec["files"]:
        for mm in fs.get("messages", ()):
            if fs["package"] + "." + mm["name"] == full or full.startswith(fs["package"] + "." + mm["name"] + "."):
                return fs["name"]
    return None


def gen_scenarios(spec, rng, n):
    from .. import protos
    lm = lro_methods(spec)
    if not lm:
        return []
    files, _ = protos.lower(spec)
    codec = protos.Codec(files)
    out = []
    for i in range(n):
        tr = spec["options"]["transport"]
        client = rng.choice(["sync", "async", "async"] + (["rest", "rest"] if "rest" in tr else []))
        if "grpc" not in tr:
            client = "rest"
        nact = 1 if client != "async" else rng.choice([1, 2, 3])
        threads = client != "async" and rng.random() < 0.2     # REAL caller threads sharing one sync/REST client
        if threads:
            nact = rng.choice([2, 2, 3])
        actors = [{"start": 0.0 if a == 0 else rng.choice([0.0, 0.3, 2.0]), "ops": []} for a in range(nact)]
        nops = rng.randint(1, 2) if nact == 1 else nact
        for j in range(nops):
            fs, s, m = rng.choice(lm)
            if client == "rest" and not m.get("http"):
                continue
            op = gen_op(spec, rng, codec, fs, s, m, f"o{j}")
            if client != "rest" and not op.get("raw") and not op.get("initial_done"):
                # version skew on the gRPC flavours (decided by a PRNG derived from the finished op)
                import random
                from .. import rng as rng_mod
                if random.Random(int(rng_mod.digest(op)[:12], 16)).random() < 0.12:
                    op["alien_initial_metadata"] = True
                    op["read_metadata"] = False      # (api-core refuses to convert metadata of another type: TypeError by design)
            if client == "rest":
                from . import c04
                from .. import simhttp
                c04._fill_path_vars(rng, op["request"], m, m["http"], "ok")
                rule = _get_operation_rule(spec)
                if rule and rule.get("additional_bindings") and rng.random() < 0.6:
                    # an operation name that only an ADDITIONAL binding of the YAML rule can carry
                    tpl = rng.choice(rule["additional_bindings"])["get"]
                    pat = re.search(r"\{name=([^}]*)\}", tpl).group(1)
                    op["op_name"] = pat.replace("*", "x1", 1).replace("*", op["op_name"].rsplit("/", 1)[1])
                op["poll_script"] = {k: (v if v in simhttp.ROUND_TRIP else "UNAVAILABLE") for k, v in (op.get("poll_script") or {}).items()}
                if "error" in (op.get("final") or {}) and op["final"]["error"]["code"] not in simhttp.ROUND_TRIP:
                    op["final"]["error"]["code"] = rng.choice(simhttp.ROUND_TRIP)
            actors[j % nact]["ops"].append(op)
        sc = {"client": client, "actors": [a for a in actors if a["ops"]],
              "jitter_default": rng.choice([1.0, 1.0, 0.5, 0.75, 0.25])}
        if client == "sync" and rng.random() < 0.12:
            # a LONG outage of GetOperation (60 s < outage < 600 s): api-core's operations client retries UNAVAILABLE
            # with 0.1 s x1.3 backoff for up to 600 s, so the future must ride it out and deliver the result
            cand = [o for a in sc["actors"] for o in a["ops"] if not o.get("raw") and not o.get("initial_done") and "response" in (o.get("final") or {})]
            if cand:
                o = rng.choice(cand)
                o["done_at"] = min(o["done_at"], 150.0)
                j0 = rng.randint(1, 2)
                o["poll_script"] = {str(j): "UNAVAILABLE" for j in range(j0, j0 + rng.randint(23, 27))}
                o["poll_lat"] = 0.0
                o["long_outage"] = True
                sc["jitter_default"] = rng.choice([0.75, 1.0])
        if threads and len(sc["actors"]) > 1:
            sc["threads"] = True
            sc["sched_seed"] = rng.randrange(2 ** 32)
        if client == "async" and len(sc["actors"]) > 1 and rng.random() < 0.25:
            # fault: one caller's task is cancelled while its future (or another caller's) is polling
            sc["cancels"] = [{"actor": rng.randrange(len(sc["actors"])), "at": rng.choice([0.0, 0.5, 1.5, 4.0, 12.0, 40.0])}]
        if client == "rest" and rng.random() < 0.4:
            # a scheme-less host with an explicit url_scheme (the documented way to reach a local/test server)
            sc["url_scheme"] = "http"
            sc["rest_host"] = rng.choice(["localhost:8080", "sim.invalid"])
        out.append(sc)
    return out


def gen_op(spec, rng, codec, fs, s, m, oid):
    pkg = fs["package"]
    op = {"id": oid, "kind": "lro", "service": s["name"], "method": m["name"], "form": rng.choice(["dict", "msg"]),
          "request": ({"name": "projects/p1/things/t" + str(rng.randint(1, 9))}
                      if "name" in codec.desc(m["input"]).fields_by_name else {}), "call": {},
          "op_name": f"projects/p1/operations/{oid}-{rng.randint(100, 999)}"}
    if m.get("lro") is None:
        op["raw"] = True
        op["initial_done"] = rng.random() < 0.5
        return op
    rfull = resolve(m["lro"]["response_type"], pkg)
    mfull = resolve(m["lro"]["metadata_type"], pkg)
    op["initial_done"] = rng.random() < 0.15
    from ..rng import deep
    op["done_at"] = 0.0 if op["initial_done"] else rng.choice([0.2, 0.9, 2.5, 7.0, 30.0, 61.0, 150.0, 420.0] + ([600.0, 800.0] if deep() else []))
    if rng.random() < 0.3:
        op["final"] = {"error": {"code": rng.choice(engine.ALL_CODES), "message": f"boom-{oid}"}}
    else:
        val = {} if rfull == "google.protobuf.Empty" else values.rand_valuation(rng, codec.desc(rfull), 0, 2, 0.7)
        if rfull != "google.protobuf.Empty" and "name" in codec.desc(rfull).fields_by_name:
            val["name"] = f"result-of-{oid}"
        op["final"] = {"response": val}
    if mfull == "google.protobuf.Empty":
        op["meta_vals"] = [{}]
    else:
        op["meta_vals"] = [dict(values.rand_valuation(rng, codec.desc(mfull), 0, 1, 0.5), progress=10 * k + 1)
                           if "progress" in codec.desc(mfull).fields_by_name else {}
                           for k in range(rng.randint(1, 4))]
    op["send_metadata"] = rng.random() < 0.85
    op["read_metadata"] = rng.random() < 0.5
    op["poll_lat"] = rng.choice([0.0, 0.0, 0.01, 0.2])
    script = {}
    if rng.random() < 0.35 and not op["initial_done"]:
        j = rng.randint(1, 4)
        code = rng.choice(["UNAVAILABLE", "UNAVAILABLE", "INTERNAL", "RESOURCE_EXHAUSTED", "DEADLINE_EXCEEDED"])
        script[str(j)] = code
        if rng.random() < 0.4:
            script[str(j + 1)] = code
    if rng.random() < 0.08 and not op["initial_done"]:
        script[str(rng.randint(1, 3))] = rng.choice(["PERMISSION_DENIED", "NOT_FOUND", "ABORTED"])
    op["poll_script"] = script
    return op


# ------------------------------------------------------------------ server

def _any(codec, full, val):
    a = codec.cls("google.protobuf.Any")()
    a.type_url = "type.googleapis.com/" + full
    a.value = values.to_dynamic(codec, full, val).SerializeToString(deterministic=True)
    return a


def build_operation(codec, spec, op, m, pkg, done, meta_idx):
    o = codec.cls("google.longrunning.Operation")()
    o.name = op["op_name"]
    o.done = bool(done)
    if op.get("raw"):
        return o
    mfull = resolve(m["lro"]["metadata_type"], pkg)
    rfull = resolve(m["lro"]["response_type"], pkg)
    if op.get("send_metadata"):
        mv = op["meta_vals"][min(meta_idx, len(op["meta_vals"]) - 1)]
        o.metadata.CopyFrom(_any(codec, mfull, mv))
    if done:
        fin = op["final"]
        if "error" in fin:
            import grpc
            o.error.code = getattr(grpc.StatusCode, fin["error"]["code"]).value[0]
            o.error.message = fin["error"]["message"]
        else:
            o.response.CopyFrom(_any(codec, rfull, fin["response"]))
    return o


def server_factory(run):
    codec = run.world.codec
    spec = run.world.spec
    state = {}

    def serve(call):
        op = run.ops.get(call["op"])
        if op is None:
            return {"code": "INTERNAL"}
        fs, s, m = find_method(spec, op["service"], op["method"])
        st = state.setdefault(op["id"], {"arrivals": 0, "t0": None})
        now = run.sim.history[-1]["t"]
        is_poll = call["path"] == GET_OP
        if call.get("tr") == "rest":
            import urllib.parse as _up
            is_poll = call["verb"] == "GET" and "/operations/" in _up.urlsplit(call["url"]).path
        if not is_poll:
            if call.get("tr") != "rest" and call["path"] not in run.world.rpc:
                return {"code": "UNIMPLEMENTED"}
            st["t0"] = now
            o = build_operation(codec, spec, op, m, fs["package"], op.get("initial_done"), 0)
            if op.get("alien_initial_metadata") and not op.get("initial_done"):
                # fault (version skew): the server that starts the operation is NEWER - the first Operation carries metadata
                # of a type this client has never heard of (later polls carry what the scenario says)
                o.metadata.type_url = "type.googleapis.com/acme.future.v9.StartupProgress"
                o.metadata.value = b"\x08\x01\x12\x03new"
                run.sim.ev("alien_metadata_sent", op=op["id"])
            return {"lat": 0.0, "msg": o}
        st["arrivals"] += 1
        j = st["arrivals"]
        code = (op.get("poll_script") or {}).get(str(j))
        if code:
            return {"lat": op.get("poll_lat", 0.0), "code": code}
        done = op.get("initial_done") or (st["t0"] is not None and now - st["t0"] >= op.get("done_at", 0.0) - 1e-9)
        o = build_operation(codec, spec, op, m, fs["package"], done, j)
        run.sim.ev("server_poll", op=op["id"], j=j, done=bool(done), meta_idx=min(j, len(op.get("meta_vals") or [0]) - 1))
        return {"lat": op.get("poll_lat", 0.0), "msg": o}
    return serve


def execute(world, scenario):
    return engine.Run(world, scenario, server_factory).run()


# ------------------------------------------------------------------ oracle

def judge(spec, scenario, history):
    from .c07 import _codec
    codec = _codec(spec)
    ra = engine.runaway_violation(history)
    if ra:
        return ra, {}
    ops = {op["id"]: op for a in scenario["actors"] for op in a["ops"]}
    probes = {}
    by_op = {}
    for e in history:
        if e.get("op") in ops:
            by_op.setdefault(e["op"], []).append(e)
    if len(scenario["actors"]) > 1:
        probes["concurrent_futures"] = 1
    for oid, op in ops.items():
        evs = by_op.get(oid, [])
        if not any(e["k"] == "invoke" for e in evs):
            continue
        v = judge_op(spec, codec, scenario, op, evs, probes)
        if v:
            return v, probes
    return [], probes


def _bump(p, k, n=1):
    p[k] = p.get(k, 0) + n


def judge_op(spec, codec, scenario, op, evs, probes):
    fs, s, m = find_method(spec, op["service"], op["method"])
    pkg = fs["package"]
    path = f"/{pkg}.{s['name']}/{m['name']}"

    def V(rule, msg):
        return [{"rule": rule, "op": op["id"], "method": path, "msg": msg}]

    attempts = [e for e in evs if e["k"] == "attempt"]
    rest = scenario["client"] == "rest"
    if rest:
        _bump(probes, "rest_future")
    if not attempts and any(e["k"] == "cancelled" for e in evs):
        return []           # the caller was cancelled before anything was sent
    if not attempts or (not rest and attempts[0]["path"] != path):
        return V("initial_call", f"first attempt went to {attempts[0]['path'] if attempts else None}")
    ch0 = attempts[0]["ch"]
    polls = attempts[1:]
    if not rest:
        from .. import oracle
        if codec.parse(m["input"], bytes.fromhex(attempts[0]["reqs"][0])) != oracle.expected_request(codec, m, op):
            return V("initial_request", "the request sent by the LRO method differs from the caller's request")
    outcome = next((e for e in evs if e["k"] in ("return", "raise", "cancelled")), None)
    if outcome is None:
        return V("no_outcome", "the LRO call neither returned nor raised")

    if op.get("raw") and outcome["k"] == "cancelled":
        return []
    if op.get("raw"):
        _bump(probes, "raw_operation")
        if polls:
            return V("raw_polled", "a method without operation_info must return the raw Operation and never poll")
        if outcome["k"] != "return" or outcome.get("full") != "google.longrunning.Operation":
            return V("raw_operation", f"expected a raw google.longrunning.Operation, got {outcome['k']} {outcome.get('full') or outcome.get('cls')}")
        want = build_operation(codec, spec, op, m, pkg, op.get("initial_done"), 0)
        if codec.parse("google.longrunning.Operation", bytes.fromhex(outcome["value"])) != want:
            return V("raw_operation_value", "raw Operation differs from what the server sent")
        return []

    rfull = resolve(m["lro"]["response_type"], pkg)
    mfull = resolve(m["lro"]["metadata_type"], pkg)
    if op.get("alien_initial_metadata"):
        _bump(probes, "initial_operation_with_unknown_metadata_type")
    _bump(probes, "fully_qualified_name" if "." in m["lro"]["response_type"] else "relative_name")
    if any(x[0].isupper() and "." in x for x in (m["lro"]["response_type"], m["lro"]["metadata_type"])):
        _bump(probes, "relative_nested_name")
    for full in (rfull, mfull):
        home = _home_file(spec, full)
        if home is not None and home.endswith("/results.proto"):
            _bump(probes, "unimported_type")
    if rfull == "google.protobuf.Empty":
        _bump(probes, "empty_response")
    if scenario["client"] == "async":
        _bump(probes, "async_future")
    if op.get("initial_done"):
        _bump(probes, "initial_done")

    # ---- polling target
    servers = {e["n"]: e for e in evs if e["k"] == "server"}
    done_delivered = op.get("initial_done")
    surfaced = None
    last_meta_idx = 0
    t_last_fault = None
    notdone = 0
    for a in polls:
        if rest:
            import urllib.parse as _up
            u0, u = _up.urlsplit(attempts[0]["url"]), _up.urlsplit(a["url"])
            rule = _get_operation_rule(spec)
            want_paths = []
            from . import c06
            for b in ([rule] + list(rule.get("additional_bindings", []))) if rule else []:
                if "get" in b:
                    pat = re.search(r"\{name=([^}]*)\}", b["get"]).group(1)
                    if c06.match_template("{x=" + pat + "}", op["op_name"])[1] is not None:
                        want_paths.append(re.sub(r"\{name=[^}]*\}", op["op_name"], b["get"]))
            if len(want_paths) > 0 and rule.get("additional_bindings"):
                _bump(probes, "rest_poll_rule_with_additional_bindings")
            if a["verb"] != "GET" or _up.unquote(u.path) not in want_paths[:1]:
                return V("poll_wrong_path", f"poll was {a['verb']} {a['url']}; the service YAML rule prescribes GET {want_paths[:1]} "
                         f"(first binding that matches the operation name {op['op_name']!r})")
            if (u.scheme, u.netloc) != (u0.scheme, u0.netloc):
                return V("poll_wrong_channel", f"poll went to {u.scheme}://{u.netloc}; the method call used {u0.scheme}://{u0.netloc}")
        else:
            if a["path"] != GET_OP:
                return V("poll_wrong_path", f"poll went to {a['path']}, expected {GET_OP}")
            if a["ch"] != ch0:
                return V("poll_wrong_channel", f"poll went out on channel {a['ch']}; the method call used {ch0}")
            req = codec.parse("google.longrunning.GetOperationRequest", bytes.fromhex(a["reqs"][0]))
            if req.name != op["op_name"]:
                return V("poll_wrong_name", f"poll asked for {req.name!r}, the operation is {op['op_name']!r}")
        if done_delivered:
            return V("poll_after_done", "GetOperation was called after a done operation had been delivered")
        if surfaced:
            return V("poll_after_error", f"GetOperation was called after non-retryable {surfaced}")
        if outcome["k"] == "cancelled" and a["t"] > outcome["t"] + 1e-6:
            return V("poll_after_cancel", f"GetOperation was called at t={a['t']:.6f}, after the caller's task had been cancelled at t={outcome['t']:.6f}")
        sv = servers.get(a["n"])
        if sv is None and outcome["k"] == "cancelled":
            break           # cancelled while this poll was in flight
        if sv.get("code"):
            t_last_fault = a["t"]
            if sv["code"] in POLL_ABSORBED[scenario["client"]]:
                _bump(probes, "poll_fault_retried")
            else:
                surfaced = sv["code"]
                _bump(probes, "poll_fault_surfaced")
            continue
        rep = codec.parse("google.longrunning.Operation", bytes.fromhex(sv["reply"]))
        sp = next(e for e in evs if e["k"] == "server_poll" and e["seq"] < sv["seq"] and e["seq"] > a["seq"])
        last_meta_idx = sp["meta_idx"]
        if rep.done:
            done_delivered = True
            t_done_delivered = a["t"] + sv.get("lat", 0.0)
        else:
            notdone += 1
    if notdone:
        _bump(probes, "not_done_polls", notdone)
        if rest:
            _bump(probes, "rest_polls", notdone)

    # ---- metadata reads
    def check_meta(e, idx):
        if not op.get("send_metadata"):
            if e.get("value") is not None:
                return V("metadata_value", "future.metadata is set although the server sent none")
            return []
        if e.get("full") != mfull:
            return V("metadata_type", f"future.metadata is a {e.get('full')}; operation_info.metadata_type resolves to {mfull}")
        want = values.to_dynamic(codec, mfull, op["meta_vals"][min(idx, len(op["meta_vals"]) - 1)])
        if codec.parse(mfull, bytes.fromhex(e["value"])) != want:
            return V("metadata_value", "future.metadata differs from the metadata of the latest operation the server delivered")
        _bump(probes, "metadata_checked")
        return []
    for e in evs:
        if e["k"] == "metadata":
            v = check_meta(e, 0)
            if v:
                return v

    # ---- outcome
    if outcome["k"] == "cancelled":
        _bump(probes, "caller_cancelled_while_polling" if polls else "caller_cancelled")
        return []
    if surfaced:
        exp = engine.CODE_TO_EXC[surfaced].__name__
        if outcome["k"] == "raise" and outcome.get("cls") == exp:
            return []
        return V("poll_error_class", f"non-retryable {surfaced} on a poll must surface as {exp}; got {outcome['k']} {outcome.get('cls')}")
    if outcome["k"] == "raise" and outcome.get("cls") == "RetryError" and t_last_fault is not None:
        return []   # the operations client's own 10 s retry deadline under repeated UNAVAILABLE
    fin = op["final"]
    if not done_delivered:
        return V("result_before_done", f"the future resolved ({outcome['k']} {outcome.get('cls')}) although no done operation was delivered")
    if "error" in fin:
        _bump(probes, "error_history")
        exp = engine.CODE_TO_EXC[fin["error"]["code"]].__name__
        if scenario["client"] == "async":
            # api-core's AsyncOperation raises the base GoogleAPICallError carrying the status message
            ok = outcome["k"] == "raise" and outcome.get("api_error") and fin["error"]["message"] in (outcome.get("msg") or "")
        else:
            ok = outcome["k"] == "raise" and outcome.get("cls") == exp
        if not ok:
            return V("error_class", f"operation finished with error {fin['error']['code']}; result() must raise {exp}, got {outcome['k']} {outcome.get('cls')}: {outcome.get('msg')}")
        return []
    _bump(probes, "response_history")
    if outcome["k"] == "raise":
        return V("unexpected_exception", f"result() raised {outcome.get('cls')}: {outcome.get('msg')} (stage {outcome.get('stage')}) on a done(response) history")
    res = next((e for e in evs if e["k"] == "result"), None)
    if res is None:
        return V("no_result", "no result recorded")
    if res.get("full") != rfull:
        return V("result_type", f"future.result() is a {res.get('full')} ({res.get('cls')}); operation_info.response_type "
                 f"{m['lro']['response_type']!r} resolves to {rfull} relative to package {pkg}")
    if codec.parse(rfull, bytes.fromhex(res["value"])) != values.to_dynamic(codec, rfull, fin["response"]):
        return V("result_value", "future.result() differs from the response the server packed")
    ma = next((e for e in evs if e["k"] == "metadata_after"), None)
    if ma is not None:
        v = check_meta(ma, last_meta_idx if polls else 0)
        if v:
            return v
    # ---- bounded liveness after done
    if not op.get("initial_done"):
        t_inv = next(e for e in evs if e["k"] == "invoke")["t"]
        ready = max(t_inv + op["done_at"], t_last_fault or 0.0)
        interval = MAX_POLL_INTERVAL[scenario["client"]]
        if op.get("long_outage"):
            _bump(probes, "long_poll_outage_ridden_out")
            interval = 61.0        # the retry loop of the failing GetOperation backs off up to 60 s before its next attempt
        bound = ready + interval + 2 * op.get("poll_lat", 0.0) + 1e-3
        if res["t"] > bound:
            return V("liveness", f"result delivered at t={res['t']:.3f}; the operation was done (and faults had stopped) at "
                     f"t={ready:.3f}: bound is {bound:.3f}")
        if res["t"] - t_inv > 60:
            _bump(probes, "long_poll_over_60s")
    return []


def shape(scenario, history):
    polls = sum(1 for e in history if e["k"] == "server_poll")
    faults = sum(1 for e in history if e["k"] == "server" and e.get("code"))
    kinds = tuple((e["k"], e.get("op")) for e in history)
    nt = polls >= 1 or faults > 0 or len(scenario["actors"]) > 1
    return {"nontrivial": nt, "key": (scenario["client"], len(scenario["actors"]), polls, faults,
                                      tuple(e.get("cls") for e in history if e["k"] == "raise")),
            "interleaving": kinds, "faults": {"grpc_status_on_poll": faults}}


# ------------------------------------------------------------------ static pre-flight (not simulation)

def preflight():
    """Generation-time half: an Operation-returning method whose annotation lacks either type name
    must be rejected by the generator; the valid twin must not.  Fixed enumeration, reported as such."""
    base = specs.widget_spec("grpc")
    cases = []
    viol = []
    d = tempfile.mkdtemp(prefix="gapic-dsim-pre-", dir=worldmod.scratch_root())
    try:
        for label, lro, must_fail in (
                ("valid", {"response_type": "Widget", "metadata_type": "CreateWidgetMetadata"}, False),
                ("no_response_type", {"metadata_type": "CreateWidgetMetadata"}, True),
                ("no_metadata_type", {"response_type": "Widget"}, True),
                ("empty_annotation", {}, True)):
            sp = copy.deepcopy(base)
            for m in sp["files"][0]["services"][0]["methods"]:
                if m["name"] == "CreateWidget":
                    m["lro"] = lro
            try:
                worldmod.generate(sp, d)
                failed = None
            except Exception as e:  # noqa
                failed = f"{type(e).__name__}: {str(e)[:120]}"
            cases.append({"case": label, "rejected": failed})
            if must_fail and failed is None:
                viol.append({"rule": "lro_annotation_accepted", "msg": f"operation_info case {label} was accepted at generation time",
                             "spec": sp, "scenario": None})
            if not must_fail and failed is not None:
                viol.append({"rule": "world_unbuildable", "msg": f"valid LRO annotation rejected: {failed}", "spec": sp, "scenario": None})
    finally:
        shutil.rmtree(d, ignore_errors=True)
    return {"cases": cases, "violations": viol, "kind": "static enumeration (not counted among simulated runs)"}
