"""C17 - mixin RPCs are exposed exactly as configured in the service YAML.  (thin)

Exposure (static, sampled): introspection of the sync and asyncio clients vs the set derived by
the oracle from the YAML dict of the spec.  Then every exposed mixin RPC is CALLED in the simulated
world: canonical gRPC path, standard pb2 request/response round trip, routing header; over REST the
rule's verb / path / body (C04's reverse transcoder on the YAML rule).  The sweep is sharded over
two PYTHONHASHSEED values (ambient nondeterminism of the generator process).
"""
import re

from .. import grammar, values, engine, oracle, simhttp
from ..world import snake
from . import c04, c06, c09

ID = "C17"
UNKNOWN_REPLY_FIELDS = True      # REST replies of a NEWER server (a field this client does not know) must decode all the same
HASH_SHARDS = [0, 1]

PROFILE = grammar.profile(
    mixin_variants=True, p_yaml=1.0, p_foreign_request=0.35, p_add_iam_methods=0.15, p_lro=0.3, p_list=0.3, p_get=0.6,
    p_create=0.2, p_update=0.2, p_delete=0.3, p_custom=0.3, p_sstream=0.0, p_cstream=0.0, p_bidi=0.0,
    p_service_config=0.5, resources=(1, 2), transports=["grpc", "grpc+rest", "grpc+rest", "rest"], p_two_services=0.45,
    p_mixin_mixed_body=0.25)

BUDGET = {
    "quick": {"worlds": 120, "runs": 30, "wall_cap": 300, "world_wall": 90},
    "thorough": {"worlds": 2400, "runs": 40, "wall_cap": 2400, "world_wall": 120},
}
REQUIRED_PROBES = ["mixin_call_with_caller_metadata", "mixin_fault_surfaced", "operations_mixin", "iam_mixin", "locations_mixin", "api_not_listed", "rule_subset", "iam_yields_to_own_rpc",
                   "own_iam_rpc_unruled_keeps_mixins", "add_iam_methods", "grpc_call", "async_call", "rest_call",
                   "rest_additional_binding", "exposure_checked", "nothing_exposed", "own_rpc_with_mixin_name", "second_service_client", "request_omitted"]

MIXINS = {
    "google.longrunning.Operations": {
        "ListOperations": ("google.longrunning.ListOperationsRequest", "google.longrunning.ListOperationsResponse", "name"),
        "GetOperation": ("google.longrunning.GetOperationRequest", "google.longrunning.Operation", "name"),
        "DeleteOperation": ("google.longrunning.DeleteOperationRequest", "google.protobuf.Empty", "name"),
        "CancelOperation": ("google.longrunning.CancelOperationRequest", "google.protobuf.Empty", "name"),
        "WaitOperation": ("google.longrunning.WaitOperationRequest", "google.longrunning.Operation", "name"),
    },
    "google.iam.v1.IAMPolicy": {
        "SetIamPolicy": ("google.iam.v1.SetIamPolicyRequest", "google.iam.v1.Policy", "resource"),
        "GetIamPolicy": ("google.iam.v1.GetIamPolicyRequest", "google.iam.v1.Policy", "resource"),
        "TestIamPermissions": ("google.iam.v1.TestIamPermissionsRequest", "google.iam.v1.TestIamPermissionsResponse", "resource"),
    },
    "google.cloud.location.Locations": {
        "GetLocation": ("google.cloud.location.GetLocationRequest", "google.cloud.location.Location", "name"),
        "ListLocations": ("google.cloud.location.ListLocationsRequest", "google.cloud.location.ListLocationsResponse", "name"),
    },
}
IAM = "google.iam.v1.IAMPolicy"


def gen_spec(rng):
    spec = grammar.gen_api(rng, PROFILE)
    y = spec.get("service_yaml") or {}
    if spec["options"].get("add-iam-methods"):
        spec["options"]["transport"] = "grpc"
        y["apis"] = [a for a in y.get("apis", []) if a["name"] != IAM]
        if "http" in y:
            y["http"]["rules"] = [r for r in y["http"]["rules"] if not r["selector"].startswith(IAM + ".")]
    return spec


def own_rpcs(spec, service=None):
    return {m["name"] for fs, s, m in grammar.all_methods(spec) if service is None or s["name"] == service}


def exposed(spec):
    """{rpc name: (api, rule dict)} the oracle derives from the YAML of the spec."""
    y = spec.get("service_yaml") or {}
    listed = {a["name"] for a in y.get("apis", [])}
    rules = {}
    for r in (y.get("http") or {}).get("rules", []):
        rules[r["selector"]] = r          # last rule for a selector wins (as in google.api.Http)
    out = {}
    for api, methods in MIXINS.items():
        if api not in listed:
            continue
        ruled = {n: rules[f"{api}.{n}"] for n in methods if f"{api}.{n}" in rules}
        if api == IAM and set(ruled) & own_rpcs(spec):
            continue                      # IAM mixins yield to same-named RPCs of the API itself
        for n, r in ruled.items():
            out[n] = (api, r)
    if (spec.get("options") or {}).get("add-iam-methods"):
        for n in MIXINS[IAM]:
            out.setdefault(n, (IAM, None))
    return out


def all_mixin_names():
    return [n for api in MIXINS.values() for n in api]


def gen_scenarios(spec, rng, n):
    ex = exposed(spec)
    transports = spec["options"]["transport"].split("+")
    kinds = (["sync", "async"] if "grpc" in transports else []) + (["rest"] if "rest" in transports else [])
    out = []
    svcs = sorted({s["name"] for fs, s, m in grammar.all_methods(spec)})
    for i in range(n):
        client = kinds[i % len(kinds)]
        svc = svcs[(i // len(kinds)) % len(svcs)]          # mixins must be offered by EVERY service's client
        names = sorted(ex)
        rng.shuffle(names)
        ops = [{"id": "probe", "kind": "introspect", "service": svc, "method": "-", "form": "none"}]
        for j, name in enumerate(names):
            api, rule = ex[name]
            if client == "rest" and rule is None:
                continue
            ops.append(gen_op(rng, name, api, rule, f"o{j}", client, spec, svc))
        if client != "rest":
            for fs, s, m in grammar.all_methods(spec):
                if m.get("own_mixin_name") and s["name"] == svc:
                    ops.insert(rng.randint(1, len(ops)), {"id": "own-" + m["name"], "kind": "unary", "service": s["name"], "method": m["name"],
                                                          "form": "dict", "request": {"name": "own/x1"}, "call": {}, "server": [{"reply": {}}]})
        if client != "rest":
            for op in ops:
                if op["kind"] == "mixin" and rng.random() < 0.15:
                    # the server answers this mixin call with an error status: it must reach the caller as the api-core
                    # exception of that status on the sync AND the asyncio client (the property: "alike")
                    op["fault"] = rng.choice(["UNAVAILABLE", "NOT_FOUND", "PERMISSION_DENIED", "UNAUTHENTICATED", "ABORTED", "INTERNAL"])
        sc_creds = rng.random() < 0.5      # the transport was built from credentials that can describe themselves
        if rng.random() < 0.4:
            shared = rng.random() < 0.7
            for op in ops:
                if op["kind"] == "mixin":
                    op["call"] = {"metadata": [["x-caller-tag", "t1"]], **({"metadata_shared": "m1"} if shared else {})}
        out.append({"client": client, "actors": [{"start": 0.0, "ops": ops}], "jitter_default": 0.0,
                    **({"credentials": "refreshable"} if sc_creds else {})})
    return out


def _first_service(spec):
    return next(s["name"] for fs, s, m in grammar.all_methods(spec))


def _bindings(rule):
    out = []
    for r in [rule] + list(rule.get("additional_bindings", [])):
        verb = next(k for k in r if k in ("get", "post", "delete", "put", "patch"))
        out.append({"verb": verb, "path": r[verb], "body": r.get("body", "")})
    return out


def gen_op(rng, name, api, rule, oid, client, spec, svc=None):
    req_full, resp_full, key = MIXINS[api][name]
    from google.protobuf import descriptor_pool
    from .. import protos  # noqa (registers the pb2 modules)
    desc = descriptor_pool.Default().FindMessageTypeByName(req_full)
    val = values.rand_valuation(rng, desc, 0, 2, 0.5, skip=(key,))
    c04.prune_empty(val)
    # the routed field: built from a binding of the rule so that REST can transcode it
    b = None
    if rule is not None:
        bs = _bindings(rule)
        b = rng.choice(bs) if rng.random() < 0.5 else bs[0]
        tmp = {}
        c04._fill_path_vars(rng, tmp, None, b, "ok")
        val[key] = tmp[key]
    else:
        val[key] = "projects/p1/things/t1"
    rdesc = descriptor_pool.Default().FindMessageTypeByName(resp_full)
    reply = values.rand_valuation(rng, rdesc, 0, 2, 0.5)
    c04.prune_empty(reply)
    form = rng.choice(["msg", "dict"])
    if client in ("sync", "async") and rng.random() < 0.07:
        # the request argument is declared Optional[...] = None: omitted = the empty request (over REST an empty name
        # instantiates no binding, so only the gRPC flavours make this call)
        form, val = "omitted", {key: ""}
    return {"id": oid, "kind": "mixin", "service": svc or _first_service(spec), "method": name, "api": api,
            "form": form, "request": val, "reply": reply, "req_full": req_full, "resp_full": resp_full,
            "binding": b}


# ------------------------------------------------------------------ executors

def _cls(full):
    from google.protobuf import symbol_database
    return symbol_database.Default().GetSymbol(full)


def _request_obj(op):
    from google.protobuf import descriptor_pool
    desc = descriptor_pool.Default().FindMessageTypeByName(op["req_full"])
    nat = values.to_native(desc, op["request"])
    return _cls(op["req_full"])(**nat) if op["form"] == "msg" else nat


def _req_kw(op):
    return {} if op["form"] == "omitted" else {"request": _request_obj(op)}


def _introspect(run, client, op):
    present = sorted(n for n in all_mixin_names() if callable(getattr(client, snake(n), None)))
    run.sim.ev("invoke", op=op["id"], kind="introspect", service=op["service"], method="-", form="none", ch=None)
    run.sim.ev("exposure", op=op["id"], present=present, client=type(client).__name__)
    run.sim.ev("return", op=op["id"], value=None, cls=None)


def _call_kwargs(run, op):
    call = op.get("call") or {}
    if not call.get("metadata"):
        return {}
    md = [tuple(kv) for kv in call["metadata"]]
    if call.get("metadata_shared"):
        # legal caller behaviour: the very same LIST object is passed to several mixin calls
        md = run.shared_md.setdefault(call["metadata_shared"], md)
    return {"metadata": md}


def _sync_mixin(run, client, op):
    engine._invoke_ev(run, op)
    fn = getattr(client, snake(op["method"]), None)
    if fn is None:
        run.sim.ev("raise", op=op["id"], cls="MissingMethod", mod="dsim", msg=f"client has no {snake(op['method'])}")
        return
    try:
        resp = fn(**_req_kw(op), **_call_kwargs(run, op))
    except Exception as e:  # noqa
        run.sim.ev("raise", op=op["id"], **engine.exc_info(e))
        return
    engine._ev_msg(run, "return", op, resp)


async def _async_mixin(run, client, op):
    engine._invoke_ev(run, op)
    fn = getattr(client, snake(op["method"]), None)
    if fn is None:
        run.sim.ev("raise", op=op["id"], cls="MissingMethod", mod="dsim", msg=f"client has no {snake(op['method'])}")
        return
    try:
        resp = await fn(**_req_kw(op), **_call_kwargs(run, op))
    except Exception as e:  # noqa
        run.sim.ev("raise", op=op["id"], **engine.exc_info(e))
        return
    engine._ev_msg(run, "return", op, resp)


async def _async_introspect(run, client, op):
    _introspect(run, client, op)


engine.SYNC_EXEC["mixin"] = _sync_mixin
engine.ASYNC_EXEC["mixin"] = _async_mixin
engine.SYNC_EXEC["introspect"] = _introspect
engine.ASYNC_EXEC["introspect"] = _async_introspect


def server_factory(run):
    codec = run.world.codec

    plain = engine.scripted_server(run)

    def serve(call):
        op = run.ops.get(call["op"])
        if op is not None and op["kind"] == "unary":
            if call["path"] not in run.world.rpc:
                return {"msg": _dyn("google.protobuf.Empty", {})}     # went somewhere else: judged below
            return plain(call)
        if op is None or op["kind"] != "mixin":
            return {"code": "UNIMPLEMENTED"}
        if op.get("fault") and call["n"] == 1:
            return {"code": op["fault"]}                      # (faults stop after the first attempt)
        return {"msg": _dyn(op["resp_full"], op["reply"])}
    return serve


def _dyn(full, val):
    """Reference message over the installed standard descriptors (the mixin types are not part of the
    API's own descriptors: they are the fixed, canonical google.* types)."""
    from google.protobuf import descriptor_pool, message_factory
    d = descriptor_pool.Default().FindMessageTypeByName(full)
    return values.fill_dynamic(message_factory.GetMessageClass(d)(), val)


def execute(world, scenario):
    return engine.Run(world, scenario, server_factory).run()


class _StdCodec:
    """Codec facade over the default pool for C04's reverse transcoder."""

    def desc(self, full):
        from google.protobuf import descriptor_pool
        return descriptor_pool.Default().FindMessageTypeByName(full.lstrip("."))

    def cls(self, full):
        from google.protobuf import message_factory
        return message_factory.GetMessageClass(self.desc(full))

    def parse(self, full, data):
        m = self.cls(full)()
        m.ParseFromString(data)
        return m


def _bump(p, k, n=1):
    p[k] = p.get(k, 0) + n


def judge(spec, scenario, history):
    ra = engine.runaway_violation(history)
    if ra:
        return ra, {}
    ops = oracle.all_ops(scenario)
    by = oracle.events_by_op(history, ops)
    probes = {}
    ex = exposed(spec)
    y = spec.get("service_yaml") or {}
    listed = {a["name"] for a in y.get("apis", [])}
    own = own_rpcs(spec)
    codec = _StdCodec()
    numeric = bool((spec.get("options") or {}).get("rest-numeric-enums"))
    # ---- exposure
    for e in history:
        if e["k"] != "exposure":
            continue
        probe_svc = next(op["service"] for a in scenario["actors"] for op in a["ops"] if op["kind"] == "introspect")
        want = sorted(set(ex) | (own_rpcs(spec, probe_svc) & set(all_mixin_names())))
        if probe_svc != _first_service(spec):
            _bump(probes, "second_service_client")
        _bump(probes, "exposure_checked")
        if not ex:
            _bump(probes, "nothing_exposed")
        if e["present"] != want:
            extra = sorted(set(e["present"]) - set(want))
            missing = sorted(set(want) - set(e["present"]))
            return [{"rule": "exposure", "op": "probe", "msg": f"{e['client']} exposes mixin RPCs {e['present']}; the service YAML "
                     f"(apis listed: {sorted(listed)}) prescribes {want}: unexpected {extra}, missing {missing}"}], probes
    for api in MIXINS:
        ruled = [r["selector"] for r in (y.get("http") or {}).get("rules", []) if r["selector"].startswith(api + ".")]
        if api in listed and any(n in ex for n in MIXINS[api]):
            _bump(probes, {"google.longrunning.Operations": "operations_mixin", IAM: "iam_mixin",
                           "google.cloud.location.Locations": "locations_mixin"}[api])
            if 0 < len([n for n in MIXINS[api] if n in ex]) < len(MIXINS[api]):
                _bump(probes, "rule_subset")
        if api not in listed and ruled:
            _bump(probes, "api_not_listed")
    if IAM in listed:
        ruled_iam = {r["selector"].rsplit(".", 1)[1] for r in (y.get("http") or {}).get("rules", []) if r["selector"].startswith(IAM + ".")}
        if ruled_iam & own:
            _bump(probes, "iam_yields_to_own_rpc")
        elif own & set(MIXINS[IAM]) and ruled_iam:
            _bump(probes, "own_iam_rpc_unruled_keeps_mixins")
    if (spec.get("options") or {}).get("add-iam-methods"):
        _bump(probes, "add_iam_methods")
    # ---- own RPCs that merely share a short name with a mixin RPC must still reach the API's own RPC
    for oid, op in ops.items():
        if op["kind"] != "unary":
            continue
        evs = by.get(oid, [])
        fs, s, m = next((fs, s, m) for fs, s, m in grammar.all_methods(spec) if s["name"] == op["service"] and m["name"] == op["method"])
        want = f"/{fs['package']}.{s['name']}/{m['name']}"
        _bump(probes, "own_rpc_with_mixin_name")
        for a in [e for e in evs if e["k"] == "attempt"]:
            if a["path"] != want:
                return [{"rule": "own_rpc_shadowed", "op": oid, "method": op["method"], "msg": f"the API's own {op['method']} went to {a['path']}; "
                         f"the proto declares {want} (a mixin with the same short name must not shadow it unless the YAML rules that mixin)"}], probes
        oc = next((e for e in evs if e["k"] in ("return", "raise")), None)
        if oc is not None and oc["k"] == "raise":
            return [{"rule": "own_rpc_shadowed", "op": oid, "method": op["method"], "msg": f"the API's own {op['method']} raised {oc.get('cls')}: {oc.get('msg')}"}], probes
    # ---- calls
    for oid, op in ops.items():
        if op["kind"] != "mixin":
            continue
        evs = by.get(oid, [])
        if not any(e["k"] == "invoke" for e in evs):
            continue

        def V(rule, msg):
            return [{"rule": rule, "op": oid, "method": op["method"], "msg": msg}], probes
        outcome = next((e for e in evs if e["k"] in ("return", "raise")), None)
        attempts = [e for e in evs if e["k"] == "attempt"]
        if op.get("fault"):
            _bump(probes, "mixin_fault_surfaced")
            want_cls = engine.CODE_TO_EXC[op["fault"]].__name__
            if outcome is None or outcome["k"] != "raise" or outcome.get("cls") != want_cls:
                return V("mixin_error_surface", f"the server answered {op['method']} ({scenario['client']}) with {op['fault']}; expected "
                         f"{want_cls}, got {outcome and outcome['k']} {outcome and outcome.get('cls')}: {outcome and str(outcome.get('msg'))[:120]}")
            continue
        if outcome is None or outcome["k"] == "raise":
            return V("mixin_call_failed", f"{op['method']} ({scenario['client']}) raised {outcome and outcome.get('cls')}: {outcome and outcome.get('msg')}")
        if len(attempts) != 1:
            return V("attempt_count", f"{len(attempts)} calls for one mixin invocation")
        a = attempts[0]
        exp = _dyn(op["req_full"], op["request"])
        key = MIXINS[op["api"]][op["method"]][2]
        if a.get("tr") == "rest":
            _bump(probes, "rest_call")
            rule = ex[op["method"]][1]
            m = {"input": op["req_full"], "http": None}
            hit = None
            for bi, b in enumerate(_bindings(rule)):
                if a["verb"].lower() != b["verb"]:
                    continue
                try:
                    r = c04.reverse(codec, m, b, a, None, {})
                except c04.Reject as rj:
                    return V("rest_" + rj.rule, str(rj))
                if r is not None:
                    hit = (bi, r)
                    break
            if hit is None:
                return V("rest_rule_not_followed", f"{a['verb']} {a['url']} instantiates none of the YAML rule's bindings {_bindings(rule)}")
            if hit[0] > 0:
                _bump(probes, "rest_additional_binding")
            if hit[1][0] != exp:
                return V("rest_request", f"{a['verb']} {a['url']} body={bytes.fromhex(a['reqs'][0])[:120]!r} reconstructs to "
                         f"{str(hit[1][0])[:200]!r}; caller sent {str(exp)[:200]!r}")
            # the first binding that matches the request must be used (declared order)
            first = next(i for i, b in enumerate(_bindings(rule)) if c04.binding_matches(b, op["request"]))
            if hit[0] != first:
                return V("rest_binding_order", f"request matches binding #{first} of the YAML rule but the call used binding #{hit[0]} ({a['verb']} {a['url']})")
        else:
            _bump(probes, "async_call" if scenario["client"] == "async" else "grpc_call")
            if op["form"] == "omitted":
                _bump(probes, "request_omitted")
            want_path = f"/{op['api']}/{op['method']}"
            if a["path"] != want_path:
                return V("grpc_path", f"call went to {a['path']}; canonical path is {want_path}")
            if a["arity"] != "uu":
                return V("grpc_arity", f"arity {a['arity']}")
            got = codec.parse(op["req_full"], bytes.fromhex(a["reqs"][0]))
            if got != exp:
                return V("grpc_request", f"payload decodes to {str(got)[:200]!r}; caller sent {str(exp)[:200]!r}")
        hdr = [v for k, v in a["md"] if k.lower() == c06.HDR]
        import urllib.parse
        got_h = dict(urllib.parse.parse_qsl(hdr[0], keep_blank_values=True)) if hdr else {}
        if got_h != {key: op["request"].get(key, "")} or len(hdr) != 1:
            return V("routing_header", f"x-goog-request-params={hdr}; expected exactly one header {key}={op['request'].get(key, '')!r}")
        if (op.get("call") or {}).get("metadata"):
            _bump(probes, "mixin_call_with_caller_metadata")
            tag = [v for k, v in a["md"] if k == "x-caller-tag"]
            if tag != ["t1"]:
                return V("caller_metadata", f"caller metadata x-caller-tag=t1 arrived as {tag}")
        # reply
        if op["resp_full"] == "google.protobuf.Empty":
            if outcome.get("value") is not None:
                return V("void_not_none", f"Empty reply must be None, got {outcome.get('cls')}")
        else:
            if outcome.get("full") != op["resp_full"]:
                return V("reply_type", f"returned a {outcome.get('full')}; standard type is {op['resp_full']}")
            if codec.parse(op["resp_full"], bytes.fromhex(outcome["value"])) != _dyn(op["resp_full"], op["reply"]):
                return V("reply_value", "returned value differs from what the server sent")
    return [], probes


def shape(scenario, history):
    att = [e for e in history if e["k"] == "attempt"]
    kinds = tuple((e["k"], e.get("op")) for e in history)
    return {"nontrivial": len(att) >= 1, "key": (scenario["client"], tuple(sorted(e.get("path", "") for e in att)),
                                                   tuple(sorted(re.sub(r"[^/:?&=]+", "x", e.get("url", "")) for e in att))),
            "interleaving": kinds, "faults": {}}


def signature(spec, scenario, rule):
    if rule == "mixin_call_failed" and scenario is not None and (spec.get("options") or {}).get("add-iam-methods") \
            and scenario["client"] == "async" and not (spec.get("service_yaml") or {}).get("apis"):
        ms = {op["method"] for a in scenario["actors"] for op in a["ops"] if op["kind"] == "mixin"}
        if ms and ms <= set(MIXINS[IAM]):
            return "legacy add-iam-methods RPC on the asyncio client"
    if rule == "reply_type" and scenario is not None:
        ms = sorted({op["method"] for a in scenario["actors"] for op in a["ops"] if op["kind"] == "mixin"})
        if ms == ["WaitOperation"]:
            return "WaitOperation over gRPC returns raw bytes"
    return rule
