"""C03 - gRPC calls reach the right RPC with the caller's request and return the reply.

A per-exchange wire invariant, checked over every attempt / item / return event.  The inputs
(APIs, valuations) are only a seeded sample; what the simulation adds is the executions where the
invariant is known to break: retried attempts, concurrent asyncio callers with crossing latencies
(cross-talk through shared stubs), several clients in one process, stream cuts.
"""
from google.protobuf import descriptor as _d
from google.protobuf import unknown_fields

from .. import grammar, values, engine, oracle
from ..world import find_method
from . import c09

ID = "C03"
FD = _d.FieldDescriptor

PROFILE = grammar.profile(
    p_sstream=0.5, p_cstream=0.4, p_bidi=0.4, p_lro=0.0, p_list=0.2, p_keyword_rpc=0.3, p_stream_of_empty=0.2, p_foreign_request=0.3,
    p_service_config=0.7, p_reserved_field=0.2, transports=["grpc", "grpc", "grpc+rest"], p_yaml=0.1, p_local_empty=0.15, p_two_services=0.4, p_same_method_two_services=0.6, p_mixed_foreign_io=0.3,
    p_custom=0.7, p_streamed_list=0.2, p_cstream_of_empty=0.25)

BUDGET = {
    "quick": {"worlds": 150, "runs": 100, "wall_cap": 300, "world_wall": 90},
    "thorough": {"worlds": 4000, "runs": 120, "wall_cap": 2400, "world_wall": 120},
}
REQUIRED_PROBES = ["binary_caller_metadata", "unary", "sstream", "cstream", "bidi", "void_output", "foreign_request", "form_none", "form_dict",
                   "form_msg", "retried_identical_payload", "concurrent_callers", "crossing_replies", "stream_cut",
                   "second_client_same_process", "keyword_rpc", "async_stream", "presence_only_request", "cancelled_mid_call", "threaded_callers", "threads_crossing_replies", "stream_start_fault_retried_sync", "stream_start_fault_surfaced_async", "reply_over_4MiB_on_own_channel"]
ASSUMPTIONS = ["client-streaming and bidi calls are not driven through retried attempts (a consumed request iterator "
               "cannot be replayed; outside the property)"]

ARITY = {"unary": "uu", "sstream": "us", "cstream": "su", "bidi": "ss"}


def gen_spec(rng):
    return grammar.gen_api(rng, PROFILE)


def candidates(spec):
    out = []
    for fs, s, m in grammar.all_methods(spec):
        k = grammar.method_kind(m)
        if k == "unary":
            if m["output"] == ".google.longrunning.Operation" and m.get("lro") is not None:
                continue
            from .c07 import classify
            if classify(spec, m) is not None:
                continue
        out.append((fs, s, m, k))
    return out


def tagged(rng, codec, full, tag, p_field=0.6):
    d = codec.desc(full)
    v = values.rand_valuation(rng, d, 0, 3, p_field)
    for cand in ["name"] + [f.name for f in d.fields]:
        f = d.fields_by_name.get(cand)
        if f is not None and f.type == FD.TYPE_STRING and f.label != FD.LABEL_REPEATED and f.containing_oneof is None:
            v[cand] = tag
            break
    return v


def gen_scenarios(spec, rng, n):
    from .. import protos
    cands = candidates(spec)
    if not cands:
        return []
    files, _ = protos.lower(spec)
    codec = protos.Codec(files)
    out = []
    for i in range(n):
        client = rng.choice(["sync", "async", "async"])
        from ..rng import deep
        nact = 1 if client == "sync" else rng.choice([1, 2, 3, 4, 6] if deep() else [1, 2, 3, 4])
        threads = False
        if client == "sync" and rng.random() < 0.45:
            nact = rng.choice([2, 2, 3, 4])   # sequential actors (two clients in one process), or ...
            threads = rng.random() < 0.65     # ... REAL caller threads sharing the client, scheduled by simthreads
        actors = [{"start": 0.0, "ops": []} for _ in range(nact)]
        nops = rng.randint(1, 10 if deep() else 5) if nact == 1 else nact + rng.randint(0, 6 if deep() else 3)
        prev = {}
        for j in range(nops):
            fs, s, m, k = rng.choice(cands)
            if prev.get(j % nact) and rng.random() < 0.3:
                fs, s, m, k = prev[j % nact]          # the same RPC again (state carried between calls)
            prev[j % nact] = (fs, s, m, k)
            actors[j % nact]["ops"].append(gen_op(spec, rng, codec, fs, s, m, k, f"o{j}", client))
        engine.add_in_place_edits(rng, actors)
        sc = {"client": client, "actors": [a for a in actors if a["ops"]], "jitter_default": 0.0}
        if nact > 1 and rng.random() < 0.5:
            sc["clients"] = "per_actor"
        if threads and len(sc["actors"]) > 1:
            sc["threads"] = True
            sc["sched_seed"] = rng.randrange(2 ** 32)
        if rng.random() < 0.08:
            # the transport builds its own channel (production path) from the channel args IT chooses; a real channel
            # enforces gRPC's 4 MiB receive cap unless the args lift it, so a large reply shows what was asked for
            sc["channel_via"] = "create_channel"
            cand = [o for a in sc["actors"] for o in a["ops"] if o["kind"] == "unary" and o.get("server") and "reply" in o["server"][-1]
                    and o["server"][-1]["reply"]]
            for o in cand[:1]:
                _, _, m = find_method(spec, o["service"], o["method"])
                fd = next((f for f in codec.desc(m["output"]).fields if f.type in (f.TYPE_STRING, f.TYPE_BYTES) and f.label != f.LABEL_REPEATED
                           and f.containing_oneof is None), None)
                if fd is not None and rng.random() < 0.6:
                    big = "x" * (4 * 1024 * 1024 + 17)
                    o["server"] = [dict(o["server"][-1], lat=0.0)]     # one attempt, whatever happens to the big reply:
                    o["call"] = {"retry": "none", "timeout": None}       # a retried 4 MiB reply would only bloat the history
                    o["server"][-1]["reply"][fd.name] = big if fd.type == fd.TYPE_STRING else {"__b": big.encode().hex()}
                    o["big_reply"] = True
        if client == "async" and len(sc["actors"]) > 1 and rng.random() < 0.2:
            # fault: one caller's task is cancelled at an arbitrary instant; the OTHER callers' calls must be unaffected
            sc["cancels"] = [{"actor": rng.randrange(len(sc["actors"])), "at": rng.choice([0.0, 0.001, 0.005, 0.02, 0.06, 0.15])}]
        out.append(sc)
    return out


def gen_op(spec, rng, codec, fs, s, m, k, oid, client):
    op = {"id": oid, "kind": k, "service": s["name"], "method": m["name"], "call": {}}
    void = m["output"] == ".google.protobuf.Empty"
    lat = lambda: rng.choice([0.0, 0.0, 0.002, 0.01, 0.05, 0.2])  # noqa
    if k in ("unary", "sstream"):
        op["form"] = rng.choice(["msg", "dict", "dict", "none"])
        op["request"] = {} if op["form"] == "none" else values.rand_valuation(rng, codec.desc(m["input"]), 0, 3, 0.6)
        if op["form"] != "none" and rng.random() < 0.12:
            pv = values.presence_only_valuation(rng, codec.desc(m["input"]))
            if pv:
                op["request"] = pv
                op["presence_only"] = True
    else:
        op["form"] = rng.choice(["msg", "dict"])
        op["requests"] = [tagged(rng, codec, m["input"], f"req-{oid}-{i}") for i in range(rng.randint(0, 4))]
    T, pol, retry_T = c09.call_policy(spec, fs, s, m, {})
    script = []
    # stream-start faults are excluded for server-streaming calls: api-core retries them in the sync
    # flavour (first item is prefetched inside the retried call) but not in asyncio (errors arrive
    # at the first read) -- api-core's concern, not this repository's
    if k == "unary" and pol and rng.random() < 0.4:
        for _ in range(rng.randint(1, 3)):
            script.append({"code": rng.choice(pol["codes"]), "lat": lat()})
    if k == "sstream" and pol and rng.random() < 0.25:
        # the stream fails BEFORE its first reply with a retryable status.  api-core semantics (trusted base): the SYNC
        # flavour prefetches the first reply inside the retried call, so the call is retried like a unary one; the
        # asyncio flavour hands the error to the first read and does not retry.  Which of the two applies is decided
        # by what the emitted transport asks api-core for, so it is judged.
        for _ in range(rng.randint(1, 2) if client == "sync" else 1):
            script.append({"code": rng.choice(pol["codes"]), "lat": lat()})
        op["stream_start_fault"] = True
    if k == "unary" and rng.random() < 0.12:
        non = [c for c in engine.ALL_CODES if not pol or c not in pol["codes"]]
        script.append({"code": rng.choice(non), "lat": lat()})
        op["server"] = script
        _binary_metadata(op)
        return op
    fl = lat()
    if T is not None:
        fl = min(fl, T / 4)
    if k in ("unary", "cstream"):
        script.append({"lat": fl, "reply": {} if void else tagged(rng, codec, m["output"], f"reply-{oid}")})
    else:
        n = rng.randint(0, 5)
        o = {"lat": fl, "items": [tagged(rng, codec, m["output"], f"item-{oid}-{i}") for i in range(n)],
             "item_lat": [rng.choice([0.0, 0.001, 0.02]) for _ in range(n)]}
        if rng.random() < 0.3:
            cc = [c for c in ["UNAVAILABLE", "ABORTED", "INTERNAL", "DATA_LOSS", "CANCELLED"] if not pol or c not in pol["codes"]]
            if cc:
                o["cut"] = {"after": rng.randint(0, n), "code": rng.choice(cc)}
        script.append(o)
        if client == "async":
            op["think"] = rng.choice([0.0, 0.0, 0.003])
    op["server"] = script
    _binary_metadata(op)
    return op


def _binary_metadata(op):
    """Caller behaviour: per-call metadata with a BINARY entry (gRPC `-bin` keys carry arbitrary bytes, e.g. a serialized
    trace context).  Decided by a PRNG derived from the finished op."""
    import random
    from .. import rng as rng_mod
    r = random.Random(int(rng_mod.digest(op)[:12], 16))
    if op["kind"] in ("unary", "sstream") and r.random() < 0.12:
        op["call"]["metadata"] = [["x-caller-tag", "t1"], ["x-trace-bin", {"__b": r.choice(["fffe00e9", "80", "00ff10", "c328"])}]]


def server_factory(run):
    return engine.scripted_server(run)


def execute(world, scenario):
    return engine.Run(world, scenario, server_factory).run()


def _bump(p, k, n=1):
    p[k] = p.get(k, 0) + n


def judge(spec, scenario, history):
    from .c07 import _codec
    codec = _codec(spec)
    ra = engine.runaway_violation(history)
    if ra:
        return ra, {}
    ops = oracle.all_ops(scenario)
    by = oracle.events_by_op(history, ops)
    probes = {}
    pending = []
    if scenario.get("threads"):
        probes["threaded_callers"] = 1
        starts = [e["op"] for e in history if e["k"] == "invoke"]
        ends = [e["op"] for e in history if e["k"] in ("return", "raise")]
        if starts != ends:
            probes["threads_crossing_replies"] = 1
    if len(scenario["actors"]) > 1 and scenario["client"] == "async":
        probes["concurrent_callers"] = 1
        # replies delivered in a different order than the calls were issued
        starts = [e["op"] for e in history if e["k"] == "invoke"]
        ends = [e["op"] for e in history if e["k"] in ("return", "raise")]
        if starts != ends:
            probes["crossing_replies"] = 1
    if scenario.get("clients") == "per_actor" and len(scenario["actors"]) > 1:
        probes["second_client_same_process"] = 1
    # every attempt in the history must belong to an op of the scenario (no stray calls)
    for e in history:
        if e["k"] == "attempt" and e.get("op") not in ops:
            return [{"rule": "stray_call", "op": e.get("op"), "msg": f"a call to {e['path']} was issued outside any invocation"}], probes
    for oid, op in ops.items():
        evs = by.get(oid, [])
        if not any(e["k"] == "invoke" for e in evs):
            continue
        v = judge_op(spec, codec, scenario, op, evs, probes)
        if v:
            return v, probes
        if op["kind"] == "cstream" and any(e["k"] == "awaitable_call" for e in evs):
            # open known finding: the asyncio method of a client-streaming RPC hands back the CALL object, not the
            # reply it is annotated and documented to return (the harness awaited it; everything else was judged)
            _bump(probes, "async_cstream_returned_a_call_object")
            fs, s, m = find_method(spec, op["service"], op["method"])
            pending.append({"rule": "async_cstream_returns_call", "op": op["id"], "method": f"/{fs['package']}.{s['name']}/{m['name']}",
                            "msg": f"await client.{op['method']}(requests=...) returned a {next(e['cls'] for e in evs if e['k'] == 'awaitable_call')} "
                                   f"(the still running call), not the {m['output']} the server sent; awaiting THAT gives the reply"})
    return pending[:1], probes


def signature(spec, scenario, rule, op_id=None):
    """Shape signatures of the recorded open finding about asyncio client-streaming methods."""
    if scenario is not None and scenario.get("client") == "async" and rule != "async_cstream_returns_call":
        for a in scenario["actors"]:
            for op in a["ops"]:
                if (op_id is None or op["id"] == op_id) and op["kind"] == "cstream":
                    fs, s, m = find_method(spec, op["service"], op["method"])
                    if m["output"] == ".google.protobuf.Empty" and op_id is not None:
                        return "asyncio client-streaming call whose reply is google.protobuf.Empty"
    return rule


def judge_op(spec, codec, scenario, op, evs, probes):
    fs, s, m = find_method(spec, op["service"], op["method"])
    path = f"/{fs['package']}.{s['name']}/{m['name']}"
    k = op["kind"]
    _bump(probes, k)
    if m["name"] in grammar.KEYWORD_RPCS:
        _bump(probes, "keyword_rpc")
    if not m["input"].startswith("." + spec["package"]):
        _bump(probes, "foreign_request")
    _bump(probes, "form_" + op.get("form", "dict"))
    if op.get("presence_only"):
        _bump(probes, "presence_only_request")
    if k != "unary" and scenario["client"] == "async":
        _bump(probes, "async_stream")
    if op.get("big_reply"):
        _bump(probes, "reply_over_4MiB_on_own_channel")
    if op.get("stream_start_fault"):
        _bump(probes, "stream_start_fault_" + ("retried_sync" if scenario["client"] == "sync" else "surfaced_async"))

    def V(rule, msg):
        return [{"rule": rule, "op": op["id"], "method": path, "msg": msg}]

    invoke = next(e for e in evs if e["k"] == "invoke")
    attempts = [e for e in evs if e["k"] == "attempt"]
    servers = {e["n"]: e for e in evs if e["k"] == "server"}
    outcome = next((e for e in evs if e["k"] in ("return", "raise", "cancelled")), None)
    if outcome is None:
        return V("no_outcome", "the call neither returned nor raised")
    T, pol, retry_T = c09.call_policy(spec, fs, s, m, op.get("call") or {})
    script = op["server"]
    # ---- expected attempt sequence
    exp_n = 0
    final = None
    elapsed = 0.0
    for i, o in enumerate(script):
        exp_n += 1
        elapsed += o.get("lat", 0.0)
        if o.get("code") and pol and o["code"] in pol["codes"] and i + 1 < len(script) \
                and not (k == "sstream" and scenario["client"] == "async"):
            if retry_T is not None and elapsed > retry_T:
                final = {"code": None, "retry_deadline": True}     # (waits are 0 here: jitter script is all zeros)
                break
            continue
        final = o
        break
    if outcome["k"] == "cancelled":
        _bump(probes, "cancelled_mid_call")
        if len(attempts) > exp_n:
            return V("attempt_count", f"{len(attempts)} call(s) on the channel before the caller was cancelled, at most {exp_n} expected")
    elif len(attempts) != exp_n:
        return V("attempt_count", f"{len(attempts)} call(s) on the channel, expected exactly {exp_n} "
                 f"({'one per invocation' if exp_n == 1 else 'one per scripted retryable failure plus one'})")
    if k in ("unary", "sstream"):
        exp_reqs = [oracle.expected_request(codec, m, op)]
    else:
        exp_reqs = [values.to_dynamic(codec, m["input"], v) for v in op.get("requests") or []]
    for a in attempts:
        if a["path"] != path:
            return V("wrong_path", f"call went to {a['path']}; the proto declares {path}")
        if a["arity"] != ARITY[k]:
            return V("wrong_arity", f"call used a {a['arity']} multicallable; the proto declares {ARITY[k]}")
        if invoke.get("ch") is not None and a["ch"] != invoke["ch"]:
            return V("wrong_channel", f"call went out on channel {a['ch']}; this client's transport owns {invoke['ch']}")
        got = [codec.parse(m["input"], bytes.fromhex(r)) for r in a["reqs"]]
        if len(got) != len(exp_reqs):
            return V("request_count", f"{len(got)} request message(s) on the wire, caller supplied {len(exp_reqs)}")
        for g, x in zip(got, exp_reqs):
            if len(unknown_fields.UnknownFieldSet(g)):
                return V("unknown_fields", "payload has fields unknown to the input descriptor")
            if g != x:
                return V("payload", f"attempt {a['n']}: payload decodes to a request different from the caller's "
                         f"(form={op.get('form')}): got {str(g)[:200]!r} expected {str(x)[:200]!r}")
        if a["n"] > 1:
            _bump(probes, "retried_identical_payload")
        for kx, vx in (op.get("call") or {}).get("metadata") or []:
            want_v = vx["__b"] if isinstance(vx, dict) else vx
            _bump(probes, "binary_caller_metadata" if isinstance(vx, dict) else "text_caller_metadata")
            if [kx, want_v] not in [list(x) for x in a["md"]]:
                return V("caller_metadata", f"attempt {a['n']}: the caller's metadata entry {kx!r} did not arrive unchanged (got {[x for x in a['md'] if x[0] == kx]})")
    # ---- outcome
    if outcome["k"] == "cancelled" and (k in ("unary", "cstream") or not attempts or attempts[-1]["n"] not in servers
                                        or final is None or final.get("code") or final.get("retry_deadline")):
        return []
    if final.get("retry_deadline"):
        if outcome["k"] != "raise" or outcome.get("cls") != "RetryError":
            return V("wrong_exception", f"the retry deadline {retry_T}s passed during the scripted outage; expected RetryError, got {outcome['k']} {outcome.get('cls')}")
        return []
    if final.get("code"):
        exp = engine.CODE_TO_EXC[final["code"]].__name__
        if outcome["k"] != "raise" or outcome.get("cls") != exp:
            return V("wrong_exception", f"server answered {final['code']}; expected {exp}, got {outcome['k']} {outcome.get('cls')}")
        return []
    sv = servers[attempts[-1]["n"]]
    void = m["output"] == ".google.protobuf.Empty"
    if k in ("unary", "cstream"):
        if outcome["k"] != "return":
            return V("unexpected_exception", f"call raised {outcome.get('cls')}: {outcome.get('msg')}")
        if void:
            _bump(probes, "void_output")
            if outcome.get("value") is not None:
                return V("void_not_none", f"Empty output must be returned as None, got {outcome.get('cls')}")
            return []
        if outcome.get("value") is None:
            return V("reply_lost", "client returned None for a non-Empty reply")
        if codec.parse(m["output"], bytes.fromhex(outcome["value"])) != codec.parse(m["output"], bytes.fromhex(sv["reply"])):
            return V("reply_mismatch", "returned value differs from what the server sent to THIS invocation "
                     "(cross-talk or decoding error)")
        return []
    items = [e["value"] for e in evs if e["k"] == "item"]
    sent = sv["items"] or []
    cut = final.get("cut")
    upto = min(cut["after"], len(sent)) if cut else len(sent)
    if outcome["k"] == "cancelled":
        upto = len(items)
    if len(items) != upto:
        return V("stream_length", f"{len(items)} item(s) yielded; the server sent {upto}" + (" before cutting the stream" if cut else ""))
    for i, (it, sb) in enumerate(zip(items, sent)):
        if void:
            continue
        if not isinstance(it, dict) or "msg" not in it or codec.parse(m["output"], bytes.fromhex(it["msg"])) != codec.parse(m["output"], bytes.fromhex(sb)):
            return V("stream_item", f"item {i} differs from what the server sent (order or content)")
    if outcome["k"] == "cancelled":
        return []
    if cut and cut["after"] <= len(sent):
        _bump(probes, "stream_cut")
        exp = engine.CODE_TO_EXC[cut["code"]].__name__
        if outcome["k"] != "raise" or outcome.get("cls") != exp:
            return V("wrong_exception", f"stream cut with {cut['code']} after {cut['after']} item(s); expected {exp}, got {outcome['k']} {outcome.get('cls')}")
    elif outcome["k"] == "raise":
        return V("unexpected_exception", f"stream raised {outcome.get('cls')}: {outcome.get('msg')}")
    return []


def shape(scenario, history):
    faults = sum(1 for e in history if e["k"] == "server" and (e.get("code") or e.get("cut")))
    kinds = tuple((e["k"], e.get("op")) for e in history)
    ar = tuple(sorted(e["arity"] for e in history if e["k"] == "attempt"))
    return {"nontrivial": faults > 0 or len(scenario["actors"]) > 1, "key": (scenario["client"], len(scenario["actors"]), faults, ar,
                                                                          scenario.get("clients")),
            "interleaving": kinds, "faults": {"grpc_status": faults}}
