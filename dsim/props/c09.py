"""C09 - default retry and timeout of each method equal its gRPC service-config entry.

Oracle: a step-by-step reference model that reads ONLY the service-config JSON of the spec
(looked up here, not through the generator's schema), the scripted server outcomes, the scripted
jitter fractions and the per-call options, and walks the recorded history.
"""
from .. import grammar, values, engine
from ..world import find_method

ID = "C09"
UNKNOWN_REPLY_FIELDS = True      # REST replies of a NEWER server (a field this client does not know) must decode all the same
TOL = 2e-5   # api-core derives per-attempt timeouts through datetime (microsecond resolution)

PROFILE = grammar.profile(
    p_service_config=1.0, p_sstream=0.25, p_cstream=0.0, p_bidi=0.0, p_lro=0.3, p_yaml=0.1, p_list=0.7, p_two_services=0.5,
    p_same_method_two_services=0.7,
    transports=["grpc", "grpc", "grpc+rest"], p_custom=0.6, p_get=1.0, p_mixin_in_service_config=0.15)

BUDGET = {
    "quick": {"worlds": 150, "runs": 150, "wall_cap": 300, "world_wall": 90},
    "thorough": {"worlds": 4000, "runs": 200, "wall_cap": 2400, "world_wall": 120},
}
ASSUMPTIONS = ["maxAttempts is not judged (the generator ignores it and the property does not mention it)"]

REQUIRED_PROBES = ["retry_fired", "deadline_exhausted", "nonretryable_surface", "unnamed_method_called",
                   "async_retry_fired", "explicit_retry", "explicit_timeout", "attempt_deadline_fired",
                   "timeout_without_retry", "retry_without_timeout", "rest_call", "rest_retry_fired", "paged_call",
                   "later_page_fetch_walked", "lro_call", "sstream_call", "sleep_overshoot_run", "caller_cancelled_mid_call", "later_attempt_deadline_shrunk",
                   "mixin_rpc_named_in_config"]


def gen_spec(rng):
    return grammar.gen_api(rng, PROFILE)


def _dur(s):
    """gRPC service-config duration ("1.5s") -> float seconds (own parser)."""
    assert s.endswith("s"), s
    return float(s[:-1])


def lookup(spec, service_full, method):
    """(timeout | None, policy | None) for a method, straight from the JSON."""
    sc = spec.get("service_config") or {}
    for e in sc.get("methodConfig", []):
        for n in e.get("name", []):
            if n.get("service") == service_full and n.get("method") == method:
                T = _dur(e["timeout"]) if e.get("timeout") else None
                pol = None
                if "retryPolicy" in e:
                    r = e["retryPolicy"]
                    pol = {"initial": _dur(r["initialBackoff"]), "maximum": _dur(r["maxBackoff"]),
                           "multiplier": float(r["backoffMultiplier"]),
                           "codes": sorted(r["retryableStatusCodes"])}
                return T, pol
    return None, None


def call_policy(spec, fs, s, m, call):
    """(per-attempt timeout T, retry policy in force, retry deadline) of one call."""
    T, pol = lookup(spec, fs["package"] + "." + s["name"], m["name"])
    retry_T = T
    call = call or {}
    if call.get("retry") == "none":
        pol = None
    elif isinstance(call.get("retry"), dict):
        pol = call["retry"]
        retry_T = pol.get("timeout")
    if "timeout" in call:
        T = call["timeout"]
    return T, pol, retry_T


def eligible_methods(spec):
    out = []
    for fs, s, m in grammar.all_methods(spec):
        if m.get("client_streaming") or m.get("server_streaming"):
            continue
        if m["output"] == ".google.longrunning.Operation":
            continue
        inp = _msg_fields(spec, m["input"])
        outp = _msg_fields(spec, m["output"])
        if inp is not None and outp is not None and "page_token" in inp and "next_page_token" in outp:
            continue
        out.append((fs, s, m))
    return out


def _msg_fields(spec, full):
    from ..world import find_message
    m = find_message(spec, full)
    if m is None:
        return None
    return {f["name"] for f in m["fields"]}


def lro_and_stream_methods(spec):
    out = []
    for fs, s, m in grammar.all_methods(spec):
        if m.get("client_streaming"):
            continue
        if m.get("server_streaming") or (m["output"] == ".google.longrunning.Operation" and m.get("lro") is not None):
            from ..world import find_message
            if find_message(spec, m["input"]) is not None:
                out.append((fs, s, m))
    return out


def paged_methods(spec):
    from . import c07
    return [(fs, s, m, cls) for fs, s, m, cls in c07.list_methods(spec) if cls is not None]


def gen_scenarios(spec, rng, n):
    meths = eligible_methods(spec)
    paged = paged_methods(spec)
    others = lro_and_stream_methods(spec)
    codec = None
    if paged or others:
        from .. import protos
        files, _ = protos.lower(spec)
        codec = protos.Codec(files)
    if not meths:
        return []
    transports = spec["options"]["transport"].split("+")
    out = []
    for i in range(n):
        kinds = []
        if "grpc" in transports:
            kinds += ["sync", "async", "async"]
        if "rest" in transports:
            kinds += ["rest"]
        client = rng.choice(kinds)
        from ..rng import deep
        nops = rng.randint(1, 8 if deep() else 4)
        nact = 1 if client != "async" else rng.randint(1, 5 if deep() else 3)
        threads = client != "async" and rng.random() < 0.2     # REAL caller threads sharing one sync/REST client
        if threads:
            nact = rng.choice([2, 2, 3])
        actors = [{"start": round(rng.choice([0, 0, 0.01, 0.3]) * (a > 0), 3), "ops": []} for a in range(nact)]
        for j in range(nops):
            if paged and client != "rest" and rng.random() < 0.2:
                from . import c07
                fs, s, m, cls = rng.choice(paged)
                op = c07.gen_op(spec, rng, codec, fs, s, m, cls, f"o{j}", client)
                for k2 in ("nested", "stop_after", "think", "read_attrs"):
                    op.pop(k2, None)
                op["lat"] = rng.choice([0.0, 0.01, 0.3])
                op["jitter"] = [rng.choice([0.0, 0.5, 1.0]) for _ in range(12)]
                rng.choice(actors)["ops"].append(op)
                continue
            if others and client != "rest" and rng.random() < 0.15:
                # long-running methods (initial call) and server-streaming methods are wrapped with the same table
                fs, s, m = rng.choice(others)
                op = gen_op(spec, rng, fs, s, m, f"o{j}", client)
                if m.get("server_streaming"):
                    op["kind"] = "sstream"
                    op["server"] = [{"items": [], "lat": op["server"][-1].get("lat", 0.0)}]   # first-attempt deadline only
                else:
                    from . import c08
                    l = c08.gen_op(spec, rng, codec, fs, s, m, f"o{j}")
                    l.update({"initial_done": True, "poll_script": {}, "read_metadata": False, "call": op["call"], "jitter": op["jitter"],
                              "request": {}, "form": op["form"], "server": [x for x in op["server"] if x.get("code") or x.get("lat", 0) and False]})
                    if "error" in l["final"]:
                        l["final"] = {"response": {}} if c08.resolve(m["lro"]["response_type"], fs["package"]) == "google.protobuf.Empty" else l["final"]
                    op = l
                rng.choice(actors)["ops"].append(op)
                continue
            fs, s, m = rng.choice(meths)
            if client == "rest" and not m.get("http"):
                continue
            op = gen_op(spec, rng, fs, s, m, f"o{j}", client)
            rng.choice(actors)["ops"].append(op)
        actors = [a for a in actors if a["ops"]]
        explicit = [o for a in actors for o in a["ops"] if isinstance((o.get("call") or {}).get("retry"), dict)]
        if len(explicit) >= 2 and rng.random() < 0.5:
            # the application defines ONE Retry object and passes it to several (possibly concurrent) calls
            import copy
            for o in explicit[1:]:
                o["call"]["retry"] = copy.deepcopy(explicit[0]["call"]["retry"])
            for o in explicit:
                o["call"]["retry_shared"] = "r1"
        sc = {"client": client, "actors": actors, "jitter_default": 1.0}
        if threads and len(sc["actors"]) > 1:
            sc["threads"] = True
            sc["sched_seed"] = rng.randrange(2 ** 32)
        if client != "async" and rng.random() < 0.25:
            sc["overshoot"] = rng.choice([0.05, 0.25, 1.0])      # time.sleep(d) returns after d*(1+overshoot)
        if client == "async" and len(actors) > 1 and rng.random() < 0.2:
            # fault: one caller's task is cancelled at an arbitrary instant (mid-attempt or inside a backoff sleep);
            # the other callers' retries and deadlines must be unaffected and the cancelled caller must stop
            sc["cancels"] = [{"actor": rng.randrange(len(actors)), "at": rng.choice([0.0, 0.01, 0.1, 0.3, 0.8, 2.0, 5.0])}]
        out.append(sc)
    _add_mixin_ops(spec, out)
    return out


OPS_API = "google.longrunning.Operations"


def mixin_entries(spec):
    """Operations-mixin RPCs that the service config names AND the service YAML exposes."""
    y = spec.get("service_yaml") or {}
    if all(a["name"] != OPS_API for a in y.get("apis", [])):
        return []
    ruled = {r["selector"].rsplit(".", 1)[1] for r in (y.get("http") or {}).get("rules", []) if r["selector"].startswith(OPS_API + ".")}
    named = [n.get("method") for e in (spec.get("service_config") or {}).get("methodConfig", []) for n in e.get("name", [])
             if n.get("service") == OPS_API]
    return sorted(set(named) & ruled & {"GetOperation", "ListOperations", "DeleteOperation", "CancelOperation"})


def _add_mixin_ops(spec, scenarios):
    """Calls of mixin RPCs that the service config names (the property: "for a method named in a methodConfig entry").
    Drawn from a PRNG derived from each finished scenario, so the rest of the workload is what it was."""
    names = mixin_entries(spec)
    if not names:
        return
    import random
    from .. import rng as rng_mod
    from . import c17
    svc = c17._first_service(spec)
    for sc in scenarios:
        if sc["client"] == "rest" or sc.get("cancels") or sc.get("threads"):
            continue
        r2 = random.Random(int(rng_mod.digest(sc)[:16], 16))
        if r2.random() > 0.5:
            continue
        name = r2.choice(names)
        op = None
        for _ in range(12):
            cand = gen_op(spec, r2, {"package": "google.longrunning"}, {"name": "Operations"}, {"name": name}, "mx", sc["client"])
            if not cand["call"]:
                op = cand
                break
        if op is None:
            continue
        req_full, resp_full, key = c17.MIXINS[OPS_API][name]
        op.update(kind="mixin", api=OPS_API, service=svc, form="msg", req_full=req_full, resp_full=resp_full,
                  request={key: "projects/p1/operations/op-" + str(r2.randint(1, 99))} if name != "ListOperations" else {key: "projects/p1"},
                  reply={})
        sc["actors"][r2.randrange(len(sc["actors"]))]["ops"].append(op)


def gen_op(spec, rng, fs, s, m, oid, client):
    T, pol = lookup(spec, fs["package"] + "." + s["name"], m["name"])
    call = {}
    c = rng.random()
    eff_pol, eff_T, retry_T = pol, T, T
    if c < 0.6:
        pass
    elif c < 0.7:
        call["retry"] = "none"
        eff_pol = None
    elif c < 0.85:
        r = {"initial": rng.choice([0.1, 0.25, 1.0]), "maximum": rng.choice([0.5, 2.0, 8.0]),
             "multiplier": rng.choice([1.0, 2.0, 1.5]), "codes": sorted(rng.sample(engine.ALL_CODES, rng.randint(1, 3))),
             "timeout": rng.choice([None, 3.0, 15.0, 45.0])}
        call["retry"] = r
        if rng.random() < 0.4:
            call["retry_shared"] = "r1"        # one Retry object for every call of the scenario that asks for this policy
        eff_pol = r
        retry_T = r["timeout"]
    if rng.random() < 0.2:
        call["timeout"] = rng.choice([None, 0.5, 2.0, 4.5, 33.0])
        eff_T = call["timeout"]
    # fault script
    codes = eff_pol["codes"] if eff_pol else []
    non = [x for x in engine.ALL_CODES if x not in codes]
    universe = engine.ALL_CODES
    if client == "rest":
        # over HTTP only five codes come back as the same api-core class (api-core's mapping)
        from .. import simhttp
        universe = simhttp.ROUND_TRIP
        if isinstance(call.get("retry"), dict):
            call["retry"]["codes"] = sorted(set(rng.sample(simhttp.ROUND_TRIP, rng.randint(1, 2))))
            codes = call["retry"]["codes"]
        codes = [c for c in codes if c in universe]
        non = [x for x in universe if x not in (eff_pol["codes"] if eff_pol else [])]
    script = []
    shape = rng.random()
    lat = lambda: rng.choice([0.0, 0.0, 0.01, 0.05, 0.3, 1.2])  # noqa
    if shape < 0.25:
        k = 0
    elif shape < 0.7:
        k = rng.randint(1, 4)
    elif shape < 0.85:
        from ..rng import deep
        k = rng.randint(5, 16 if deep() else 9)
    else:
        k = 60   # outage longer than any deadline: latency guarantees exhaustion when a deadline exists
    if k == 60 and (retry_T is None or not codes):
        k = rng.randint(3, 9)
    for _ in range(k):
        code = rng.choice(codes) if codes and rng.random() < 0.9 else rng.choice(non or codes or universe)
        o = {"code": code, "lat": lat() if k < 60 else max(0.05, (retry_T or 1.0) * rng.choice([0.03, 0.1, 0.2]))}
        if eff_T is not None and rng.random() < 0.08 and client != "rest":
            o = {"lat": eff_T * rng.choice([1.5, 3.0]), "code": None}   # stall beyond the attempt deadline
        script.append(o)
    if rng.random() < 0.2 and non:
        script.append({"code": rng.choice(non), "lat": min(lat(), (eff_T or 9) / 4)})
    fl = lat()
    if eff_T is not None:
        fl = min(fl, round(eff_T / 4, 6))   # the final reply always beats the attempt deadline (faults stop)
    script.append({"lat": fl, "reply": {}})
    jm = rng.random()
    if jm < 0.34:
        jit = []
    elif jm < 0.45:
        jit = [0.0] * (len(script) + 1)
    else:
        jit = [rng.choice([0.0, 0.25, 0.5, 0.75, 1.0, round(rng.random(), 3)]) for _ in range(len(script) + 1)]
    if client == "rest" and eff_T is not None:
        for o in script:      # the simulated HTTP adapter does not model read timeouts: replies always beat the deadline
            o["lat"] = min(o.get("lat", 0.0), round(eff_T / 4, 6))
    op = {"id": oid, "kind": "unary", "service": s["name"], "method": m["name"],
          "form": rng.choice(["dict", "msg", "none"]), "request": {}, "call": call, "server": script,
          "jitter": jit}
    if client == "rest":
        from . import c04
        op["form"] = rng.choice(["dict", "msg"])
        c04._fill_path_vars(rng, op["request"], m, m["http"], "ok")
    return op


def server_factory(run):
    from . import c06, c17
    base = c06.server_factory(run)      # paged ops -> page-history server, lro -> operation server, others -> scripted

    def serve(call):
        op = run.ops.get(call["op"])
        if op is not None and op["kind"] == "mixin":
            script = op["server"]
            o = script[call["n"] - 1] if call["n"] <= len(script) else {"lat": min(script[-1].get("lat", 0.0), 0.01)}
            out = {"lat": o.get("lat", 0.0)}
            if o.get("code"):
                out["code"] = o["code"]
            else:
                out["msg"] = c17._dyn(op["resp_full"], op["reply"])
            return out
        return base(call)
    return serve


def execute(world, scenario):
    return engine.Run(world, scenario, server_factory).run()


# ------------------------------------------------------------------------------ oracle

def judge(spec, scenario, history, codec=None):
    viol = []
    probes = {}
    ra = engine.runaway_violation(history)
    if ra:
        return ra, probes
    ops = {op["id"]: op for a in scenario["actors"] for op in a["ops"]}
    by_op = {}
    for e in history:
        if "op" in e and e["op"] in ops:
            by_op.setdefault(e["op"], []).append(e)
    for oid, op in ops.items():
        evs = by_op.get(oid, [])
        if not any(e["k"] == "invoke" for e in evs):
            continue   # actor was never started / cancelled before (not in C09 scenarios)
        v = judge_op(spec, scenario, op, evs, probes)
        viol.extend(v)
    return viol, probes


def _bump(p, k, n=1):
    p[k] = p.get(k, 0) + n


def judge_op(spec, scenario, op, evs, probes):
    if op["kind"] == "mixin":
        # a mixin RPC that the service config names: judged against its entry like any other named method.  When the
        # history fails that model but is exactly what an UN-named method does (one attempt, no deadline), the rule is
        # the recorded open finding `mixin_entry_ignored`; any other failure keeps its own rule.
        _bump(probes, "mixin_rpc_named_in_config")
        v = _judge_op(spec, scenario, op, evs, probes, None)
        if v and not _judge_op(spec, scenario, op, evs, {}, (None, None)):
            return [dict(v[0], rule="mixin_entry_ignored", msg="the service config names " + op["api"] + "/" + op["method"] +
                         " but the call behaves like an un-named method (one attempt, no deadline): " + v[0]["msg"])]
        return v
    return _judge_op(spec, scenario, op, evs, probes, None)


def _judge_op(spec, scenario, op, evs, probes, entry):
    if op["kind"] == "mixin":
        full, m = op["api"], {"name": op["method"]}
    else:
        fs, s, m = find_method(spec, op["service"], op["method"])
        full = fs["package"] + "." + s["name"]
    path = f"/{full}/{m['name']}"
    T_entry, pol_entry = lookup(spec, full, m["name"]) if entry is None else entry
    call = op.get("call") or {}
    pol, retry_T = pol_entry, T_entry
    if call.get("retry") == "none":
        pol = None
    elif isinstance(call.get("retry"), dict):
        pol = call["retry"]
        retry_T = pol.get("timeout")
        _bump(probes, "explicit_retry")
    T = T_entry
    if "timeout" in call:
        T = call["timeout"]
        _bump(probes, "explicit_timeout")
    if T_entry is None and pol_entry is None:
        _bump(probes, "unnamed_method_called")
    if T_entry is not None and pol_entry is None:
        _bump(probes, "timeout_without_retry")
    if T_entry is None and pol_entry is not None:
        _bump(probes, "retry_without_timeout")
    is_async = scenario["client"] == "async"
    if scenario["client"] == "rest":
        _bump(probes, "rest_call")

    def V(rule, msg):
        return [{"rule": rule, "op": op["id"], "method": path, "msg": msg}]

    invoke = next(e for e in evs if e["k"] == "invoke")
    attempts = [e for e in evs if e["k"] == "attempt"]
    ends = {e["n"]: e for e in evs if e["k"] == "attempt_end"}
    servers = {e["n"]: e for e in evs if e["k"] == "server"}
    outcome = next((e for e in evs if e["k"] in ("return", "raise", "cancelled")), None)
    if outcome is None:
        return V("no_outcome", "the call neither returned nor raised")
    if outcome["k"] == "cancelled":
        # the caller's task was cancelled: what was issued BEFORE that instant must still follow the model, and
        # nothing may be issued after it
        _bump(probes, "caller_cancelled_mid_call")
        late = [a for a in attempts if a["t"] > outcome["t"] + TOL]
        if late:
            return V("attempt_after_cancel", f"attempt {late[0]['n']} was issued at t={late[0]['t']:.6f}, after the caller was cancelled at t={outcome['t']:.6f}")
        if op["kind"] != "unary":
            return []
    jit = list(op.get("jitter") or [])
    jd = scenario.get("jitter_default", 1.0)
    ctx = {"T": T, "pol": pol, "retry_T": retry_T, "jit": jit, "jd": jd, "path": path, "ends": ends, "servers": servers,
           "client": scenario["client"], "probes": probes, "overshoot": scenario.get("overshoot", 0.0),
           "cancel_t": outcome["t"] if outcome["k"] == "cancelled" else None}
    if ctx["overshoot"]:
        _bump(probes, "sleep_overshoot_run")
    if op["kind"] == "paged":
        # every page fetch is one call of the wrapped method: the call's retry/timeout (default or
        # explicit) must govern EACH of them
        _bump(probes, "paged_call")
        rest = list(attempts)
        t0 = invoke["t"]
        fetch = 0
        last = None
        while rest:
            t0 = rest[0]["t"] if fetch else invoke["t"]
            r = walk_call(ctx, rest, t0, first_fetch=(fetch == 0))
            if r.get("viol"):
                rule, msg = r["viol"]
                return V(rule, f"page fetch #{fetch}: {msg}")
            rest = rest[r["used"]:]
            last = r
            fetch += 1
            if r["status"] != "ok":
                break
            if fetch >= 2:
                _bump(probes, "later_page_fetch_walked")
        if rest:
            return V("extra_attempt", f"{len(rest)} more attempt(s) after the call had ended with {last['status']}")
        if last is not None and last["status"] == "raise":
            if outcome["k"] != "raise" or outcome.get("cls") != last["cls"]:
                return V("wrong_exception", f"expected {last['cls']}, got {outcome['k']} {outcome.get('cls')}")
        elif outcome["k"] != "return":
            return V("wrong_outcome", f"all fetches succeeded but the iteration raised {outcome.get('cls')}: {outcome.get('msg')}")
        return []
    if op["kind"] in ("lro", "sstream"):
        _bump(probes, op["kind"] + "_call")
        attempts = [a for a in attempts if a["path"] == path]
        if op["kind"] == "lro" and outcome["k"] == "raise" and outcome.get("stage") == "result":
            outcome = dict(outcome, k="return")          # the operation's own error: the CALL succeeded
        outcome = dict(outcome, t=ends[attempts[-1]["n"]]["t"]) if attempts and attempts[-1]["n"] in ends and outcome["k"] == "return" else outcome
    r = walk_call(ctx, attempts, invoke["t"], first_fetch=True)
    if r.get("viol"):
        return V(*r["viol"])
    if r["status"] == "cancelled":
        return []
    if outcome["k"] == "cancelled":
        return V("cancel_not_observed", f"the model says the call had ended ({r['status']}) at t={r['t_end']:.6f}, before the cancellation at "
                 f"t={outcome['t']:.6f}, yet the caller saw neither a reply nor an error")
    if r["used"] != len(attempts):
        return V("extra_attempt", f"the call ended after attempt {r['used']} ({r['status']}) but {len(attempts) - r['used']} more attempt(s) followed")
    if r["status"] == "ok":
        if outcome["k"] != "return":
            return V("wrong_outcome", f"attempt {r['used']} succeeded but the call raised {outcome.get('cls')}")
    elif outcome["k"] != "raise" or outcome.get("cls") != r["cls"]:
        return V("wrong_exception", f"expected {r['cls']} ({r['why']}), got {outcome['k']} {outcome.get('cls')}")
    # bounded liveness: outcome is delivered at the instant the model stopped
    if abs(outcome["t"] - r["t_end"]) > TOL:
        return V("liveness", f"outcome delivered at t={outcome['t']:.6f}, model says {r['t_end']:.6f}")
    return []


def walk_call(ctx, attempts, t0, first_fetch=True):
    """Walk the attempts of ONE call of a wrapped method against the retry/deadline reference model.
    Returns {"status": ok|raise, "cls", "why", "t_end", "used"} or {"viol": (rule, msg)}."""
    T, pol, retry_T, probes = ctx["T"], ctx["pol"], ctx["retry_T"], ctx["probes"]
    expect_t = t0
    k = 0
    while True:
        k += 1
        ct = ctx.get("cancel_t")
        if k > len(attempts) and ct is not None and expect_t >= ct - TOL:
            return {"status": "cancelled", "used": len(attempts)}        # cancelled inside the backoff sleep
        if k > len(attempts):
            return {"viol": ("missing_attempt", f"model expects attempt {k} at t={expect_t:.6f} but the client issued only "
                             f"{len(attempts)} attempt(s)")}
        a = attempts[k - 1]
        if a.get("tr") != "rest" and a["path"] != ctx["path"]:
            return {"viol": ("wrong_path", f"attempt {k} went to {a['path']}")}
        if (k > 1 or first_fetch) and abs(a["t"] - expect_t) > TOL:
            return {"viol": ("attempt_time", f"attempt {k} started at t={a['t']:.6f}, model says {expect_t:.6f} "
                             f"(previous wait must equal f*min(initial*mult^(k-1), max))")}
        to = a["timeout"]
        if T is None:
            if to is not None:
                return {"viol": ("unexpected_deadline", f"attempt {k} carries timeout={to} but no timeout is configured/requested")}
        else:
            if to is None:
                return {"viol": ("missing_deadline", f"attempt {k} carries no timeout; expected {T}")}
            if k == 1 and abs(to - T) > TOL:
                return {"viol": ("first_attempt_deadline", f"attempt 1 carries timeout={to}; expected {T}")}
            if k > 1 and not (0 < to <= T + TOL):
                return {"viol": ("later_attempt_deadline", f"attempt {k} carries timeout={to}; expected within (0, {T}]")}
            # the entry's timeout is the CALL's deadline: a later attempt gets what is left of it, not the whole again
            # (api-core's TimeToDeadlineTimeout, which wrap_method applies to a float default_timeout / timeout=)
            #   remaining = T - elapsed; api-core hands out the whole T again once less than 1 s is left (its issue #654)
            elapsed = a["t"] - t0
            near_1ms = abs(elapsed - 0.001) < 2e-5       # api-core treats "< 1 ms since the first attempt" as 0: a tie
            if elapsed < 0.001:
                elapsed = 0.0
            left = T - elapsed
            ok_vals = [left] if left >= 1 + 1e-6 else [T] if left < 1 - 1e-6 else [left, T]
            if near_1ms:
                ok_vals = ok_vals + [T, T - 0.001]
            if k > 1 and not any(abs(to - v) <= 1e-3 for v in ok_vals):
                return {"viol": ("later_attempt_deadline", f"attempt {k} carries timeout={to}; {elapsed:.6f}s of the call's {T}s deadline have "
                                 f"passed, so {left:.6f}s are left (api-core: the whole {T}s again only when less than 1 s is left)")}
            if k > 1 and elapsed > 1e-3 and left >= 1 + 1e-6:
                _bump(probes, "later_attempt_deadline_shrunk")
        o = ctx["servers"].get(a["n"]) or {}
        lat = o.get("lat", 0.0)
        if to is not None and lat > to and a.get("tr") != "rest":   # (the HTTP adapter does not model read timeouts)
            code, dur = "DEADLINE_EXCEEDED", to
            _bump(probes, "attempt_deadline_fired")
        else:
            code, dur = o.get("code"), lat
        end = ctx["ends"].get(a["n"])
        t_end = a["t"] + dur
        if ct is not None and t_end >= ct - TOL and (end is None or end["t"] >= ct - TOL):
            return {"status": "cancelled", "used": k}                    # cancelled while this attempt was in flight
        if end is None or abs(end["t"] - t_end) > TOL:
            return {"viol": ("harness_attempt_end", f"attempt {k} end event inconsistent: {end} vs {t_end}")}
        if code is None:
            return {"status": "ok", "t_end": t_end, "used": k}
        _bump(probes, "faults_injected")
        if pol is None or code not in pol["codes"]:
            _bump(probes, "nonretryable_surface")
            return {"status": "raise", "cls": engine.CODE_TO_EXC[code].__name__, "t_end": t_end, "used": k,
                    "why": f"{code} is not retryable for this call ({'no retry policy' if pol is None else pol['codes']})"}
        f = ctx["jit"][a["n"] - 1] if a["n"] - 1 < len(ctx["jit"]) else ctx["jd"]
        # api-core's truncated exponential backoff: the bound starts at min(initial, maximum) and is multiplied and
        # capped step by step (this differs from min(initial*mult^(k-1), max) when initial > maximum and mult < 1)
        bound = min(pol["initial"], pol["maximum"])
        for _ in range(k - 1):
            bound = min(bound * pol["multiplier"], pol["maximum"])
        sleep = f * bound
        over = (t_end - t0) + sleep - retry_T if retry_T is not None else None
        if over is not None and abs(over) <= TOL:
            # exact tie between "now + wait" and the retry deadline: float rounding decides inside
            # api-core; the property does not -> accept either continuation (counted, not judged)
            _bump(probes, "deadline_tie_skipped")
            nxt = attempts[k] if k < len(attempts) else None
            if nxt is None and ct is not None:
                return {"status": "cancelled", "used": k}     # tie + cancellation: either continuation was cut short
            over = -1.0 if (nxt is not None and abs(nxt["t"] - (t_end + sleep * (1.0 + ctx.get("overshoot", 0.0)))) <= TOL) else 1.0
        if over is not None and over > 0:
            _bump(probes, "deadline_exhausted")
            if (t_end - t0) > 120:
                _bump(probes, "outage_over_120s")
            return {"status": "raise", "cls": "RetryError", "t_end": t_end, "used": k,
                    "why": f"after attempt {k} ({t_end - t0:.6f}s since start) the next wait {sleep:.6f}s crosses the retry deadline {retry_T}s"}
        _bump(probes, "retry_fired")
        if ctx["client"] == "rest":
            _bump(probes, "rest_retry_fired")
        if ctx["client"] == "async":
            _bump(probes, "async_retry_fired")
        if (t_end - t0) + sleep > 120:
            _bump(probes, "outage_over_120s")
        # the wait REQUESTED is `sleep`; a late timer makes the next attempt start later, never earlier
        expect_t = t_end + sleep * (1.0 + ctx.get("overshoot", 0.0))


def shape(scenario, history):
    """Key for distinct / non-trivial counting."""
    faults = sum(1 for e in history if e["k"] == "attempt_end" and e["status"] != "OK")
    codes = tuple(e["status"] for e in history if e["k"] == "attempt_end")
    kinds = tuple((e["k"], e.get("op")) for e in history)
    fired = {"status_code": faults, "attempt_deadline_fired": sum(1 for e in history if e["k"] == "attempt_end" and e["status"] == "DEADLINE_FIRED")}
    if scenario.get("overshoot"):
        fired["sleep_overshoot"] = sum(1 for e in history if e["k"] == "sleep")
    return {"nontrivial": faults > 0, "key": (scenario["client"], codes, len(scenario["actors"])),
            "interleaving": kinds, "faults": fired}
