"""Own fork-per-job process manager (multiprocessing.Pool waits forever on a dead worker and
max_tasks_per_child is incompatible with fork).  Each job runs in a fresh forked child of the
warmed parent, returns one pickled result on a pipe and exits; a child that outlives its wall
budget is killed and reported as a harness error, never as a pass.
"""
import faulthandler
import os
import pickle
import select
import signal
import sys
import time
import traceback


def _child(fn, job, wfd, wall):
    try:
        faulthandler.dump_traceback_later(wall, exit=True)
        res = fn(job)
        data = pickle.dumps(("ok", res))
    except BaseException as e:  # noqa
        data = pickle.dumps(("harness_error", f"{type(e).__name__}: {e}\n{traceback.format_exc()}"))
    try:
        with os.fdopen(wfd, "wb") as f:
            f.write(data)
    finally:
        sys.stdout.flush()
        sys.stderr.flush()
        os._exit(0)


def run_jobs(jobs, fn, workers=None, wall=90.0, deadline=None, on_result=None):
    """Run fn(job) for every job in forked children, ``workers`` at a time.

    Yields nothing; returns list of (job, status, payload) in job order where status is
    "ok" | "harness_error" | "timeout" | "skipped".  If ``deadline`` (perf_counter value) passes,
    remaining jobs are skipped (status "skipped").  on_result(job, status, payload) may return True
    to stop scheduling new jobs.
    """
    workers = workers or int(os.environ.get("VERIF_WORKERS", "0")) or os.cpu_count() or 4
    results = [None] * len(jobs)
    live = {}  # rfd -> (idx, pid, start, buf)
    nxt = 0
    stop = False
    while nxt < len(jobs) or live:
        while not stop and nxt < len(jobs) and len(live) < workers:
            if deadline is not None and time.perf_counter() > deadline:
                stop = True
                break
            r, w = os.pipe()
            sys.stdout.flush()
            sys.stderr.flush()
            pid = os.fork()
            if pid == 0:
                os.close(r)
                for fd in list(live):
                    try:
                        os.close(fd)
                    except OSError:
                        pass
                _child(fn, jobs[nxt], w, wall)
            os.close(w)
            live[r] = [nxt, pid, time.perf_counter(), bytearray()]
            nxt += 1
        if stop and nxt < len(jobs):
            for i in range(nxt, len(jobs)):
                results[i] = (jobs[i], "skipped", None)
            nxt = len(jobs)
        if not live:
            break
        ready, _, _ = select.select(list(live), [], [], 0.5)
        now = time.perf_counter()
        for fd in ready:
            chunk = os.read(fd, 1 << 20)
            ent = live[fd]
            if chunk:
                ent[3] += chunk
                continue
            os.close(fd)
            del live[fd]
            try:
                os.waitpid(ent[1], 0)
            except ChildProcessError:
                pass
            idx = ent[0]
            try:
                status, payload = pickle.loads(bytes(ent[3]))
            except Exception:  # noqa
                status, payload = "harness_error", "child died without a result (crash or wall-clock kill)"
            results[idx] = (jobs[idx], status, payload)
            if on_result is not None and on_result(jobs[idx], status, payload):
                stop = True
        for fd in list(live):
            ent = live[fd]
            if now - ent[2] > wall + 10:
                try:
                    os.kill(ent[1], signal.SIGKILL)
                    os.waitpid(ent[1], 0)
                except OSError:
                    pass
                os.close(fd)
                del live[fd]
                results[ent[0]] = (jobs[ent[0]], "timeout", f"killed after {wall + 10:.0f}s wall")
    return results


def run_one(fn, job, wall=90.0):
    return run_jobs([job], fn, workers=1, wall=wall)[0]
