"""Known findings (committed file, never written at run time).  See DESIGN.md section 6."""
import json
import os

PATH = os.path.join(os.path.dirname(os.path.dirname(os.path.abspath(__file__))), "known_findings.json")


def load():
    if not os.path.exists(PATH):
        return []
    with open(PATH) as f:
        return json.load(f).get("findings", [])


def match(known, prop, rule, signature):
    """Only OPEN entries suppress; fixed entries suppress nothing."""
    for k in known:
        if k.get("status") == "open" and k["property"] == prop and k["rule"] == rule and k["signature"] == signature:
            return k
    return None
