"""Known findings (committed file, never written at run time).  See DESIGN.md section 6."""
import json
import os

PATH = os.path.join(os.path.dirname(os.path.dirname(os.path.abspath(__file__))), "known_findings.json")


def load():
    if not os.path.exists(PATH):
        return []
    with open(PATH) as f:
        return json.load(f).get("findings", [])


def match(known, prop, rule, signature):
    """Only OPEN entries suppress; fixed entries suppress nothing.  An entry with property "*" is a
    world_unbuildable finding that any check can run into (no library exists for that input)."""
    for k in known:
        if k.get("status") == "open" and k["property"] in (prop, "*") and k["rule"] == rule and k["signature"] == signature:
            return k
    return None


def generic_signature(spec, rule, msg):
    """Shapes of recorded world_unbuildable findings that are independent of the property being checked."""
    if rule != "world_unbuildable" or spec is None:
        return None
    if "duplicate argument" in str(msg):
        for fs in spec["files"]:
            for s in fs.get("services", ()):
                for m in s["methods"]:
                    flat = {x.strip() for sg in m.get("signatures", []) for x in sg.split(",") if x.strip()}
                    if flat & {"request", "retry", "timeout", "metadata"}:
                        return "flattened parameter named like a parameter of the client method itself (request, retry, timeout, metadata)"
    if "NameError" in str(msg):
        home = {}
        for fs in spec["files"]:
            for m in fs.get("messages", []) + fs.get("enums", []):
                home["." + fs["package"] + "." + m["name"]] = fs["name"]
        for fs in spec["files"]:
            msgs = {"." + fs["package"] + "." + m["name"]: m for m in fs.get("messages", [])}
            for s in fs.get("services", ()):
                for m in s["methods"]:
                    req = msgs.get(m["input"])
                    if not req:
                        continue
                    flat = {x.strip().split(".")[0] for sg in m.get("signatures", []) for x in sg.split(",") if x.strip()}
                    for f in req["fields"]:
                        if f["name"] in flat and f.get("map") and f["map"]["value"]["type"] in ("message", "enum"):
                            h = home.get(f["map"]["value"]["type_name"])
                            if h is not None and h != fs["name"]:
                                return "flattened map parameter whose value type lives in another proto file"
    return None
