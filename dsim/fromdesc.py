"""FileDescriptorProtos of a REAL API -> ApiSpec (the plain-data format of protos.py / grammar.py).

Used to put a real googleapis description (the serialized CodeGeneratorRequest shipped in the
repository's test resources: google.cloud.speech.v1) through the same simulated worlds as the
grammar's synthetic APIs.  Comments are dropped; everything the oracles read (fields, presence,
maps, oneofs, http rules, signatures, resources, operation_info, hosts) is carried over.
"""
from google.protobuf import descriptor_pb2 as dpb
from google.api import annotations_pb2, client_pb2, field_behavior_pb2, resource_pb2, routing_pb2, field_info_pb2
from google.longrunning import operations_pb2

F = dpb.FieldDescriptorProto
TYPE_NAMES = {v: k for k, v in {
    "double": F.TYPE_DOUBLE, "float": F.TYPE_FLOAT, "int64": F.TYPE_INT64, "uint64": F.TYPE_UINT64,
    "int32": F.TYPE_INT32, "fixed64": F.TYPE_FIXED64, "fixed32": F.TYPE_FIXED32, "bool": F.TYPE_BOOL,
    "string": F.TYPE_STRING, "bytes": F.TYPE_BYTES, "uint32": F.TYPE_UINT32, "sfixed32": F.TYPE_SFIXED32,
    "sfixed64": F.TYPE_SFIXED64, "sint32": F.TYPE_SINT32, "sint64": F.TYPE_SINT64}.items()}


def _ftype(fp):
    if fp.type == F.TYPE_MESSAGE:
        return {"type": "message", "type_name": fp.type_name}
    if fp.type == F.TYPE_ENUM:
        return {"type": "enum", "type_name": fp.type_name}
    return {"type": TYPE_NAMES[fp.type]}


def _message(mp, full):
    entries = {full + "." + n.name: n for n in mp.nested_type if n.options.map_entry}
    real_oneofs = []
    for i, od in enumerate(mp.oneof_decl):
        members = [f for f in mp.field if f.HasField("oneof_index") and f.oneof_index == i]
        if not (len(members) == 1 and members[0].proto3_optional):
            real_oneofs.append(od.name)
    m = {"name": mp.name, "fields": []}
    if real_oneofs:
        m["oneofs"] = real_oneofs
    for fp in mp.field:
        f = {"name": fp.name, "number": fp.number}
        ent = entries.get(fp.type_name.lstrip(".")) if fp.type == F.TYPE_MESSAGE else None
        if ent is not None and fp.label == F.LABEL_REPEATED:
            k = next(x for x in ent.field if x.name == "key")
            v = next(x for x in ent.field if x.name == "value")
            f["type"] = "message"
            f["map"] = {"key": TYPE_NAMES[k.type], "value": _ftype(v)}
        else:
            f.update(_ftype(fp))
            if fp.label == F.LABEL_REPEATED:
                f["repeated"] = True
        if fp.proto3_optional:
            f["optional"] = True
        elif fp.HasField("oneof_index"):
            f["oneof"] = mp.oneof_decl[fp.oneof_index].name
        beh = list(fp.options.Extensions[field_behavior_pb2.field_behavior])
        if field_behavior_pb2.REQUIRED in beh:
            f["required"] = True
        others = [field_behavior_pb2.FieldBehavior.Name(b) for b in beh if b != field_behavior_pb2.REQUIRED]
        if others:
            f["behaviors"] = others
        rr = fp.options.Extensions[resource_pb2.resource_reference]
        if rr.type:
            f["resource_ref"] = rr.type
        if rr.child_type:
            f["child_ref"] = rr.child_type
        if fp.options.Extensions[field_info_pb2.field_info].format == field_info_pb2.FieldInfo.UUID4:
            f["uuid4"] = True
        m["fields"].append(f)
    nested = [_message(n, full + "." + n.name) for n in mp.nested_type if not n.options.map_entry]
    if nested:
        m["messages"] = nested
    if mp.enum_type:
        m["enums"] = [{"name": e.name, "values": [[v.name, v.number] for v in e.value]} for e in mp.enum_type]
    res = mp.options.Extensions[resource_pb2.resource]
    if res.type:
        m["resource"] = {"type": res.type, "patterns": list(res.pattern)}
        if res.name_field:
            m["resource"]["name_field"] = res.name_field
    return m


def _http(rule):
    def one(r):
        kind = r.WhichOneof("pattern")
        if kind is None:
            return None
        if kind == "custom":
            h = {"verb": "custom", "kind": r.custom.kind, "path": r.custom.path}
        else:
            h = {"verb": kind, "path": getattr(r, kind)}
        if r.body:
            h["body"] = r.body
        return h
    h = one(rule)
    if h is None:
        return None
    adds = [one(a) for a in rule.additional_bindings]
    adds = [a for a in adds if a]
    if adds:
        h["additional"] = adds
    return h


def spec_from_files(files, targets, options=None):
    """files: FileDescriptorProtos of the request; targets: names of the files to generate."""
    tfiles = [f for f in files if f.name in targets]
    pkgs = [f.package for f in tfiles]
    import os
    package = os.path.commonprefix(pkgs).rstrip(".")
    spec = {"package": package, "files": [], "options": dict(options or {"autogen-snippets": False})}
    for fd in tfiles:
        fs = {"name": fd.name, "package": fd.package, "messages": [], "enums": [], "services": []}
        for mp in fd.message_type:
            fs["messages"].append(_message(mp, fd.package + "." + mp.name))
        for e in fd.enum_type:
            fs["enums"].append({"name": e.name, "values": [[v.name, v.number] for v in e.value]})
        for rd in fd.options.Extensions[resource_pb2.resource_definition]:
            fs.setdefault("resource_definitions", []).append({"type": rd.type, "patterns": list(rd.pattern)})
        for sp in fd.service:
            s = {"name": sp.name, "methods": []}
            host = sp.options.Extensions[client_pb2.default_host]
            if host:
                s["host"] = host
            sc = sp.options.Extensions[client_pb2.oauth_scopes]
            if sc:
                s["scopes"] = sc.split(",")
            for mp in sp.method:
                m = {"name": mp.name, "input": mp.input_type, "output": mp.output_type}
                if mp.client_streaming:
                    m["client_streaming"] = True
                if mp.server_streaming:
                    m["server_streaming"] = True
                if mp.options.HasExtension(annotations_pb2.http):
                    h = _http(mp.options.Extensions[annotations_pb2.http])
                    if h:
                        m["http"] = h
                sigs = list(mp.options.Extensions[client_pb2.method_signature])
                if sigs:
                    m["signatures"] = sigs
                if mp.options.HasExtension(routing_pb2.routing):
                    m["routing"] = [dict(field=p.field, **({"path_template": p.path_template} if p.path_template else {}))
                                    for p in mp.options.Extensions[routing_pb2.routing].routing_parameters]
                if mp.options.HasExtension(operations_pb2.operation_info):
                    oi = mp.options.Extensions[operations_pb2.operation_info]
                    m["lro"] = {"response_type": oi.response_type, "metadata_type": oi.metadata_type}
                s["methods"].append(m)
            fs["services"].append(s)
        if not fs["services"]:
            del fs["services"]
        spec["files"].append(fs)
    return spec


_SPEECH = []


def speech_spec():
    """google.cloud.speech.v1 from the repository's own test resources (a real googleapis API)."""
    import copy
    if not _SPEECH:
        from google.protobuf.compiler import plugin_pb2
        path = "/repo/tests/unit/configurable_snippetgen/resources/speech/request.desc"
        with open(path, "rb") as f:
            req = plugin_pb2.CodeGeneratorRequest.FromString(f.read())
        # dependency order of the target files as in the request
        _SPEECH.append(spec_from_files(list(req.proto_file), list(req.file_to_generate)))
    return copy.deepcopy(_SPEECH[0])
