"""Simulated HTTP: requests.adapters.HTTPAdapter.send is the seam (it covers the emitted
AuthorizedSession and the session api-core's OperationsRestTransport creates internally).

Every HTTP request becomes an ``attempt`` event (tr="rest": verb, url, body, headers, timeout) and
is answered by sim.server(call) with
    {"lat", "code": <grpc code name -> HTTP status + google.rpc error body> | None,
     "json": <reply body text>, "chunks": [sizes]}      # chunks: short reads for streamed replies
"""
import io
import json

import requests
from requests.adapters import HTTPAdapter

from .simclock import CLOCK

_REAL_SEND = HTTPAdapter.send
_SIM = [None]

HTTP_STATUS = {
    "CANCELLED": 499, "UNKNOWN": 500, "INVALID_ARGUMENT": 400, "DEADLINE_EXCEEDED": 504, "NOT_FOUND": 404,
    "ALREADY_EXISTS": 409, "PERMISSION_DENIED": 403, "RESOURCE_EXHAUSTED": 429, "FAILED_PRECONDITION": 400,
    "ABORTED": 409, "OUT_OF_RANGE": 400, "UNIMPLEMENTED": 501, "INTERNAL": 500, "UNAVAILABLE": 503,
    "DATA_LOSS": 500, "UNAUTHENTICATED": 401,
}
# status codes whose HTTP mapping comes back as the SAME api-core class as the gRPC code
ROUND_TRIP = ["CANCELLED", "NOT_FOUND", "UNIMPLEMENTED", "INTERNAL", "UNAVAILABLE"]


class _Raw:
    """urllib3-response stand-in that delivers the body in simulator-chosen chunk sizes."""

    def __init__(self, data, sizes):
        self.data, self.sizes = data, list(sizes or [])
        self.pos = 0

    def stream(self, chunk_size=1, decode_content=True):
        i = 0
        while self.pos < len(self.data):
            n = self.sizes[i] if i < len(self.sizes) else max(1, len(self.data) - self.pos)
            i += 1
            chunk = self.data[self.pos:self.pos + n]
            self.pos += n
            yield chunk

    def read(self, n=-1, decode_content=True):
        if n is None or n < 0:
            n = len(self.data) - self.pos
        chunk = self.data[self.pos:self.pos + n]
        self.pos += n
        return chunk

    def close(self): pass
    def release_conn(self): pass


def _send(self, request, stream=False, timeout=None, verify=True, cert=None, proxies=None):
    sim = _SIM[0]
    if sim is None:
        raise RuntimeError("real network access attempted outside a simulation")
    body = request.body
    if body is None:
        body = b""
    elif isinstance(body, str):
        body = body.encode("utf-8")
    out = sim.attempt(request.url, "http", [body], list(request.headers.items()), timeout, "http", transport="rest",
                      extra={"verb": request.method, "url": request.url, "stream": bool(stream)})
    lat = float(out.get("lat", 0.0))
    CLOCK.advance(lat)
    if out.get("conn_error"):
        # fault: the (kept-alive) connection was dropped by the peer: no response, requests raises ConnectionError
        sim.end(out, "CONNECTION_ERROR")
        raise requests.exceptions.ConnectionError("('Connection aborted.', RemoteDisconnected('injected by simulator'))", request=request)
    resp = requests.Response()
    resp.request = request
    resp.url = request.url
    resp.encoding = "utf-8"
    resp.headers["Content-Type"] = "application/json; charset=UTF-8"
    if out.get("code"):
        st = HTTP_STATUS[out["code"]]
        payload = json.dumps({"error": {"code": st, "message": "injected by simulator", "status": out["code"]}}).encode()
        kind = getattr(sim, "http_error_body", None)
        if kind == "html":
            # what a proxy / load balancer in front of the API answers: not JSON at all
            payload = f"<html><head><title>{st}</title></head><body><h1>{st} {out['code']}</h1></body></html>".encode()
            resp.headers["Content-Type"] = "text/html; charset=UTF-8"
        elif kind == "empty":
            payload = b""
            resp.headers["Content-Type"] = "text/plain"
        resp.status_code = st
        resp.reason = out["code"]
        resp._content = payload
        resp.raw = _Raw(payload, [])
        sim.end(out, out["code"])
        return resp
    payload = out.get("json", "{}")
    if isinstance(payload, str):
        payload = payload.encode("utf-8")
    if getattr(sim, "unknown_reply_field", False) and payload[:1] == b"{":
        # fault (version skew): a newer server adds a field the installed message definitions do not have
        try:
            obj = json.loads(payload)
            if isinstance(obj, dict) and "zzAddedInV2" not in obj:
                obj["zzAddedInV2"] = {"note": "unknown to this client", "n": 1}
                payload = json.dumps(obj).encode("utf-8")
                sim.ev("unknown_field_injected", op=out.get("op"), n=out.get("n"))
        except ValueError:
            pass
    if out.get("lost_body"):
        payload = b""           # fault: a success status whose entity body never arrived (zero bytes)
    resp.status_code = 200
    resp.reason = "OK"
    if stream:
        resp.raw = _Raw(payload, out.get("chunks") or [])
        resp._content = False
        resp._content_consumed = False
    else:
        resp._content = payload
        resp.raw = _Raw(payload, [])
    sim.end(out, "OK")
    return resp


def install(sim):
    _SIM[0] = sim
    HTTPAdapter.send = _send


def uninstall():
    _SIM[0] = None
    HTTPAdapter.send = _REAL_SEND
