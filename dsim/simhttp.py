"""placeholder; replaced below"""
def install(sim): raise NotImplementedError
def uninstall(): pass
