"""Deterministic simulation harness for gapic-generator-python (see /verif/DESIGN.md)."""
