"""Seeded grammar of conventional resource-oriented API specs (DESIGN.md section 3).

Everything is drawn from the ``rng`` passed in; the result is plain JSON-able data.  The
grammar is deliberately conventional (what protoc + api-linter would accept): a false alarm on an
input outside a property's quantifier is worse than a missed exotic shape.
"""
import copy
import os

NOUNS = ["Widget", "Gadget", "Shelf", "Book", "Route", "Sprocket", "Crate", "Lamp", "Valve", "Badge"]
PLURAL = {n: n.lower() + ("es" if n.endswith(("s", "x")) else "s") for n in NOUNS}
PLURAL["Shelf"] = "shelves"
VERBS = ["Polish", "Archive", "Inspect", "Rotate", "Seal"]
KEYWORD_RPCS = ["Import", "Yield", "Pass", "Return"]
# RPC names that are also the name of a member every emitted TRANSPORT has of its own (close(), kind)
TRANSPORT_MEMBER_RPCS = ["Close", "Kind"]
SCALARS = ["double", "float", "int64", "uint64", "int32", "fixed64", "fixed32", "bool", "string", "bytes",
           "uint32", "sfixed32", "sfixed64", "sint32", "sint64"]
MAP_KEYS = ["string", "int32", "int64", "bool", "uint32", "sint64", "fixed32"]
FIELD_NAMES = ["display_name", "size", "weight", "labels", "notes", "color", "rank", "ratio", "payload",
               "active", "quota", "etag", "owner", "tags", "score", "shape_id", "annotations", "priority",
               "serial", "depth", "alias", "mass", "flags", "region_code"]
RESERVED_FIELD_NAMES = ["type", "class", "from", "in", "format", "max", "license", "next", "filter_", "import",
                        "mapping", "ignore_unknown_fields"]
ALL_CODES = ["CANCELLED", "UNKNOWN", "INVALID_ARGUMENT", "DEADLINE_EXCEEDED", "NOT_FOUND", "ALREADY_EXISTS",
             "PERMISSION_DENIED", "RESOURCE_EXHAUSTED", "FAILED_PRECONDITION", "ABORTED", "OUT_OF_RANGE",
             "UNIMPLEMENTED", "INTERNAL", "UNAVAILABLE", "DATA_LOSS", "UNAUTHENTICATED"]
WKT = [".google.protobuf.Timestamp", ".google.protobuf.Duration", ".google.protobuf.FieldMask"]

DEFAULT_PROFILE = {
    "resources": (1, 3),
    "p_second_file": 0.35,
    "p_get": 0.9, "p_list": 0.6, "p_create": 0.5, "p_update": 0.4, "p_delete": 0.5, "p_custom": 0.4,
    "p_sstream": 0.25, "p_cstream": 0.15, "p_bidi": 0.15, "p_lro": 0.3, "p_raw_op": 0.08,
    "p_http": 0.9, "p_signature": 0.7, "p_routing": 0.25, "p_keyword_rpc": 0.08,
    "p_service_config": 0.8, "p_yaml": 0.3, "p_reserved_field": 0.08, "p_two_services": 0.25,
    "p_foreign_request": 0.1, "p_shuffle_numbers": 0.2, "p_additional_binding": 0.25, "p_param_name_collision": 0.0, "p_stream_of_empty": 0.06, "p_stream_routing": 0.0, "p_routing_name_clash": 0.0, "p_required_optional": 0.0, "p_body_only_in_additional": 0.0, "p_foreign_paged": 0.0, "p_case_twin_fields": 0.0, "p_deprecated_flattened": 0.0, "p_deep_path_var": 0.0,
    # post-pass shapes (drawn from a PRNG derived from the finished spec: they do not perturb the main stream)
    "p_struct_fields": 0.0, "p_empty_routing": 0.0, "p_routing_shorthand": 0.0, "p_keyword_update_field": 0.0,
    "p_auto_populate": 0.0, "p_google_api_ns": 0.0, "sig_variants": False, "p_multi_var_path": 0.0, "mixin_variants": False, "p_add_iam_methods": 0.0, "p_equal_sort_keys": 0.0, "p_reserved_path_var": 0.0, "p_local_empty": 0.0, "p_same_method_two_services": 0.0, "p_required_enum": 0.0, "p_custom_http_pattern": 0.0, "p_real_api": 0.04, "p_nested_name_ties": 0.15, "p_double_star_path": 0.0, "p_value_fields": 0.0, "p_mixed_foreign_io": 0.0, "common_file_names": ["resources"],
    "transports": ["grpc", "grpc+rest", "grpc+rest", "rest"],
    "p_numeric_enums": 0.3,
    "paged_variants": False,
    "lro_variants": False,
}


def profile(**over):
    p = dict(DEFAULT_PROFILE)
    p.update(over)
    return p


class _Ctx:
    def __init__(self, rng, prof):
        self.rng = rng
        self.p = prof
        self.used_msg = set()
        self.auto = []      # (service full name, method name, [auto-populated field names])

    def chance(self, key):
        return self.rng.random() < self.p.get(key, 0.0)


def _fresh_name(rng, used, pool=FIELD_NAMES):
    cands = [n for n in pool if n not in used]
    n = rng.choice(cands)
    used.add(n)
    return n


def _rand_field(cx, used, number, enums, msgs, allow_oneof=None, depth=0, allow_value=False):
    rng = cx.rng
    if cx.chance("p_reserved_field"):
        name = _fresh_name(rng, used, RESERVED_FIELD_NAMES)
        name = name.rstrip("_") if name != "filter_" else "filter"
        used.add(name)
    else:
        name = _fresh_name(rng, used)
    f = {"name": name, "number": number}
    c = rng.random()
    if c < 0.45:
        f["type"] = rng.choice(SCALARS)
        if rng.random() < 0.2:
            f["repeated"] = True
        elif rng.random() < 0.2:
            f["optional"] = True
    elif c < 0.6 and enums:
        f["type"] = "enum"
        f["type_name"] = rng.choice(enums)
        if rng.random() < 0.2:
            f["repeated"] = True
    elif c < 0.8 and msgs:
        f["type"] = "message"
        f["type_name"] = rng.choice(msgs)
        if rng.random() < 0.25:
            f["repeated"] = True
    elif c < 0.88:
        f["type"] = "message"
        f["type_name"] = rng.choice(WKT)
        if allow_value and cx.chance("p_value_fields"):
            # google.protobuf.Value (only in C05's profile: proto-plus cannot take a LIST of Values through a
            # constructor or assignment, which is why the templates special-case repeated Value flattened fields)
            f["type_name"] = ".google.protobuf.Value"
            if rng.random() < 0.6:
                f["repeated"] = True

    else:
        f["type"] = "message"  # placeholder type for map fields (ignored by lowering)
        vt = rng.random()
        if vt < 0.6:
            value = {"type": rng.choice(["string", "int32", "bool", "double", "bytes", "int64"])}
        elif vt < 0.8 and enums:
            value = {"type": "enum", "type_name": rng.choice(enums)}
        elif msgs:
            value = {"type": "message", "type_name": rng.choice(msgs)}
        else:
            value = {"type": "string"}
        f["map"] = {"key": rng.choice(MAP_KEYS), "value": value}
    return f


def _number_seq(cx, n, start=1):
    nums = list(range(start, start + n))
    if cx.chance("p_shuffle_numbers"):
        cx.rng.shuffle(nums)
    return nums


def real_api(cx):
    """A real googleapis description (google.cloud.speech.v1, from the repository's test resources) with
    seeded options / service config / service YAML, so that the same worlds also run on an API nobody here wrote."""
    from . import fromdesc
    rng, p = cx.rng, cx.p
    spec = fromdesc.speech_spec()
    spec["real_api"] = "google.cloud.speech.v1"
    spec["options"]["transport"] = rng.choice(p["transports"])
    if "rest" in spec["options"]["transport"] and cx.chance("p_numeric_enums"):
        spec["options"]["rest-numeric-enums"] = True
    if cx.chance("p_service_config"):
        spec["service_config"] = gen_service_config(rng, spec)
    if "rest" in spec["options"]["transport"] or cx.chance("p_yaml"):
        spec["service_yaml"] = {"type": "google.api.Service", "config_version": 3, "name": "speech.googleapis.com",
                                "apis": [{"name": "google.longrunning.Operations"}],
                                "http": {"rules": [{"selector": "google.longrunning.Operations.GetOperation", "get": "/v1/operations/{name=**}"},
                                                   {"selector": "google.longrunning.Operations.ListOperations", "get": "/v1/operations"}]}}
    return spec


def gen_api(rng, prof=None):
    cx = _Ctx(rng, prof or DEFAULT_PROFILE)
    p = cx.p
    if cx.chance("p_real_api") and not p.get("p_auto_populate") and not p.get("mixin_variants"):
        return real_api(cx)
    ns = rng.choice([["acme"], ["acme", "cloud"], ["example"]])
    if cx.chance("p_google_api_ns"):
        ns = ["google", "api"]      # ancestor package google.api defines messages (HttpRule, ...) present in every request  # no-namespace packages excluded: setup.py.j2 needs one (C01/C11, not claimed)
    name = rng.choice(["widgets", "library", "depot", "foundry"])
    ver = rng.choice(["v1", "v1", "v1beta1", "v2alpha", "v2"])
    pkg = ".".join(ns + [name, ver])
    P = "." + pkg
    pdir = pkg.replace(".", "/")
    host = f"{name}.example.com"
    main = {"name": f"{pdir}/{name}_service.proto", "package": pkg, "messages": [], "enums": [], "services": []}
    files = [main]
    cx.files = files
    common = main
    if cx.chance("p_second_file"):
        cfn = rng.choice(p.get('common_file_names') or ['resources'])
        if cfn == "<noun>":
            cfn = "__NOUN__"
        common = {"name": f"{pdir}/{cfn}.proto", "package": pkg,
                  "messages": [], "enums": [], "role": "common"}
        files.insert(0, common)

    # shared enum + detail message
    enums = []
    common["enums"].append({"name": "State", "values": [["STATE_UNSPECIFIED", 0], ["ACTIVE", 1], ["RETIRED", 2], ["BROKEN", 5]]})
    enums.append(P + ".State")
    detail_used = set()
    detail = {"name": "Detail", "fields": [], "enums": [{"name": "Kind", "values": [["KIND_UNSPECIFIED", 0], ["SOFT", 1], ["HARD", 3]]}]}
    enums.append(P + ".Detail.Kind")
    nums = _number_seq(cx, 4)
    for i in range(rng.randint(2, 4)):
        detail["fields"].append(_rand_field(cx, detail_used, nums[i], enums, [], depth=1))
    if rng.random() < 0.4:   # self recursion
        detail["fields"].append({"name": "child", "number": 9, "type": "message", "type_name": P + ".Detail"})
    common["messages"].append(detail)
    msgs = [P + ".Detail"]

    nres = rng.randint(*p["resources"])
    nouns = rng.sample(NOUNS, nres)
    if common is not main and "__NOUN__" in common["name"]:
        common["name"] = common["name"].replace("__NOUN__", nouns[0].lower())     # e.g. widget.proto defining Widget
    services = []
    svc_names = [name.capitalize() + "Service"]
    if cx.chance("p_two_services"):
        svc_names.append("Admin")
    for sn in svc_names:
        services.append({"name": sn, "host": host, "methods": []})
    main["services"] = services

    resources = {}
    for noun in nouns:
        coll = PLURAL[noun]
        nested_parent = rng.random() < 0.4
        parent_pat = "projects/{project}/locations/{location}" if nested_parent else "projects/{project}"
        pattern = f"{parent_pat}/{coll}/{{{noun.lower()}}}"
        used = {"name"}
        fields = [{"name": "name", "number": 1, "type": "string"}]
        k = rng.randint(2, 6)
        nums = _number_seq(cx, k, 2)
        oneof_used = False
        for i in range(k):
            f = _rand_field(cx, used, nums[i], enums, msgs)
            fields.append(f)
        m = {"name": noun, "fields": fields, "resource": {"type": f"{host}/{noun}", "patterns": [pattern]}}
        if cx.chance("p_nested_name_ties"):
            # the same nested names (Options / Mode) under every resource: short-name ties for anything that sorts by name
            m["messages"] = [{"name": "Options", "fields": [{"name": "verbose", "number": 1, "type": "bool"},
                                                             {"name": "mode", "number": 2, "type": "enum", "type_name": f"{P}.{noun}.Mode"}]}]
            m["enums"] = [{"name": "Mode", "values": [["MODE_UNSPECIFIED", 0], ["FAST", 1], ["SAFE", 2]]}]
            fields.append({"name": "options", "number": 60, "type": "message", "type_name": f"{P}.{noun}.Options"})
        if rng.random() < 0.35:
            # a real oneof with 2-3 members
            m["oneofs"] = ["variant"]
            base = max(f["number"] for f in fields) + 1
            for j, (nm, ty) in enumerate(rng.sample([("text_value", "string"), ("int_value", "int64"),
                                                      ("flag_value", "bool"), ("detail_value", "message")], rng.randint(2, 3))):
                ff = {"name": nm, "number": base + j, "type": ty, "oneof": "variant"}
                if ty == "message":
                    ff["type_name"] = P + ".Detail"
                fields.append(ff)
        common["messages"].append(m)
        msgs.append(P + "." + noun)
        resources[noun] = {"pattern": pattern, "parent_pattern": parent_pat, "coll": coll, "msg": m,
                           "nested_parent": nested_parent}

    if cx.chance("p_equal_sort_keys"):
        # two resources whose types share the part after '/', both reachable from one service
        noun = nouns[0]
        legacy = {"name": "Legacy" + noun, "fields": [{"name": "name", "number": 1, "type": "string"},
                                                       {"name": "note", "number": 2, "type": "string"}],
                  "resource": {"type": f"legacy.{host}/{noun}", "patterns": [f"legacy{PLURAL[noun].capitalize()}/{{legacy_{noun.lower()}}}"]}}
        common["messages"].append(legacy)
        resources[noun]["msg"]["fields"].append({"name": "legacy_form", "number": 40, "type": "message",
                                                 "type_name": P + ".Legacy" + noun})
    for noun in nouns:
        svc = rng.choice(services)
        _gen_methods(cx, pkg, main, svc, noun, resources[noun], enums, msgs)

    if p.get("p_auto_populate", 0) > 0:
        _add_auto_populated(cx, pkg, files, services)

    if len(services) > 1 and cx.chance("p_same_method_two_services"):
        # the same RPC name (and request type) in two services: service-config selectors must tell them apart
        src = next((m for m in services[0]["methods"] if not m.get("client_streaming") and not m.get("server_streaming")
                    and m["output"] != ".google.longrunning.Operation" and not m.get("own_mixin_name")), None)
        if src is not None and all(m["name"] != src["name"] for m in services[1]["methods"]):
            twin = copy.deepcopy(src)
            req = _lookup_msg(cx, src["input"])
            if req is not None and len(req["fields"]) > 1 and rng.random() < 0.8 and not src.get("routing"):
                # a different request type with the same NUMBER of fields (one non-path field renamed)
                pv = set()
                import re as _re
                for b in ([src["http"]] + list(src["http"].get("additional", ()))) if src.get("http") else []:
                    pv |= {v.split(".")[0] for v in _re.findall(r"\{([^}=]+)", b["path"])}
                    if b.get("body") and b["body"] != "*":
                        pv.add(b["body"])
                sigf = {x.split(".")[0] for sg in src.get("signatures", []) for x in sg.split(",")}
                cand = [f for f in req["fields"] if f["name"] not in pv and f["name"] not in sigf and not f.get("oneof")]
                if cand and not any(mm["name"] == src["name"] + "AdminRequest" for mm in main["messages"]):
                    alt = copy.deepcopy(req)
                    alt["name"] = src["name"] + "AdminRequest"
                    vic = next(f for f in alt["fields"] if f["name"] == cand[-1]["name"])
                    vic["name"] = vic["name"] + "_alt"
                    main["messages"].append(alt)
                    twin["input"] = P + "." + alt["name"]
            if "http" in twin:
                twin["http"]["path"] = twin["http"]["path"].replace("/v", "/admin/v", 1)
                for a in twin["http"].get("additional", ()):
                    a["path"] = a["path"].replace("/v", "/admin/v", 1)
            services[1]["methods"].append(twin)

    # make sure every service has at least one method
    for s in services:
        if not s["methods"]:
            noun = rng.choice(nouns)
            _add_get(cx, pkg, main, s, noun, resources[noun], suffix=s["name"])

    spec = {"package": pkg, "files": files, "options": {"autogen-snippets": False}}
    spec["options"]["transport"] = rng.choice(p["transports"])
    if "rest" in spec["options"]["transport"] and cx.chance("p_numeric_enums"):
        spec["options"]["rest-numeric-enums"] = True
    own_iam = any(m["name"] in ("SetIamPolicy", "GetIamPolicy", "TestIamPermissions") for s in services for m in s["methods"])
    if cx.chance("p_add_iam_methods") and not own_iam:
        spec["options"]["add-iam-methods"] = True
    if cx.chance("p_service_config"):
        spec["service_config"] = gen_service_config(rng, spec)
    need_ops_mixin = any(m.get("lro") is not None for s in services for m in s["methods"]) and \
        "rest" in spec["options"]["transport"]
    if cx.chance("p_yaml") or need_ops_mixin or p.get("p_auto_populate", 0) > 0:
        spec["service_yaml"] = gen_service_yaml(cx, spec, host, need_ops_mixin)
    _post_shapes(cx, spec)
    return spec


KEYWORD_MESSAGE_FIELDS = ["import", "from", "class", "global", "lambda"]


def _post_shapes(cx, spec):
    """Shapes added to a finished spec.  Their PRNG is derived from the spec itself, so enabling one of them in a
    profile leaves every other choice of the world unchanged."""
    import random
    from . import rng as rng_mod
    p = cx.p
    if not any(p.get(k, 0) > 0 for k in ("p_empty_routing", "p_routing_shorthand", "p_keyword_update_field", "p_struct_fields", "p_mixin_mixed_body", "p_stdlib_file_name", "p_mistyped_max_results", "p_streamed_list", "p_nested_lro_types", "p_mixin_in_service_config", "p_cstream_of_empty")):
        return
    prng = random.Random(int(rng_mod.digest(spec)[:16], 16))
    methods = [(fs, s, m) for fs, s, m in all_methods(spec)]
    if prng.random() < p.get("p_keyword_update_field", 0):
        # AIP-134 Update whose resource field is a Python keyword (resource "Import": `Import import = 1`), so the
        # path variable / routing field / flattened path `import.name` starts with a keyword segment
        for fs, s, m in methods:
            mm = re_update(m)
            if mm is None:
                continue
            low = mm
            req = next((x for f in spec["files"] for x in f.get("messages", ()) if m["input"].endswith("." + x["name"]) and "." + f["package"] + "." + x["name"] == m["input"]), None)
            if req is None or not any(f["name"] == low for f in req["fields"]):
                continue
            kw = prng.choice(KEYWORD_MESSAGE_FIELDS)
            for f in req["fields"]:
                if f["name"] == low:
                    f["name"] = kw
            def ren(x):
                return kw + x[len(low):] if x == low or x.startswith(low + ".") else x
            for _, _, m2 in methods:
                if m2["input"] != m["input"]:
                    continue            # (every RPC that takes this request type: the same method may live in two services)
                if m2.get("http"):
                    for b in [m2["http"]] + list(m2["http"].get("additional", ())):
                        b["path"] = b["path"].replace("{" + low + ".", "{" + kw + ".")
                        if b.get("body") == low:
                            b["body"] = kw
                if m2.get("signatures"):
                    m2["signatures"] = [",".join(ren(x) for x in sg.split(",")) for sg in m2["signatures"]]
                for rp in m2.get("routing") or []:
                    rp["field"] = ren(rp["field"])
            break
    if prng.random() < p.get("p_struct_fields", 0):
        # `repeated google.protobuf.Struct rows` named by a method_signature (sibling of Vertex AI's repeated Value
        # instances): proto-plus cannot ASSIGN a list of Structs, it can only extend the field
        cands = []
        for fs, s, m in methods:
            req = next((x for x in fs.get("messages", ()) if "." + fs["package"] + "." + x["name"] == m["input"]), None)
            if req is not None and m.get("signatures") and m["signatures"][0] and not any(f["name"] == "rows" for f in req["fields"]) \
                    and not m.get("client_streaming") and all(f["number"] != 15 for f in req["fields"]):
                cands.append((m, req))
        if cands:
            m, req = prng.choice(cands)
            req["fields"].append({"name": "rows", "number": 15, "type": "message", "type_name": ".google.protobuf.Struct", "repeated": True})
            m["signatures"][0] = m["signatures"][0] + ",rows"
    if prng.random() < p.get("p_stdlib_file_name", 0):
        # the API's second proto file is named like a standard-library module the emitted code imports
        # (google/logging/v2/logging.proto is a published example)
        f = next((f for f in spec["files"] if f.get("role") == "common"), None)
        if f is not None:
            f["name"] = f["name"].rsplit("/", 1)[0] + "/" + prng.choice(p.get("stdlib_file_names") or ["logging"]) + ".proto"
    if prng.random() < p.get("p_mistyped_max_results", 0):
        # a List request with a valid page_size AND a legacy-named max_results of a type the rule does not allow
        cands = []
        for fs, s, m in methods:
            req = next((x for x in fs.get("messages", ()) if "." + fs["package"] + "." + x["name"] == m["input"]), None)
            if req is not None and m["name"].startswith("List") and any(f["name"] == "page_size" for f in req["fields"]) \
                    and not any(f["name"] == "max_results" or f["number"] == 21 for f in req["fields"]):
                cands.append(req)
        if cands:
            f = prng.choice([{"type": "string"}, {"type": "double"}, {"type": "message", "type_name": ".google.protobuf.StringValue"},
                             {"type": "message", "type_name": ".google.protobuf.Int64Value"}])
            prng.choice(cands)["fields"].append(dict(f, name="max_results", number=21))
    if prng.random() < p.get("p_streamed_list", 0):
        # a SERVER-STREAMING rpc that reuses the (paging-shaped) request and response messages of a List method
        cands = [(fs, s, m) for fs, s, m in methods if m["name"].startswith("List") and not m.get("server_streaming")
                 and not m.get("client_streaming") and all(x["name"] != "Stream" + m["name"][4:] for x in s["methods"])]
        if cands:
            fs, s, m = prng.choice(cands)
            sm = {"name": "Stream" + m["name"][4:], "input": m["input"], "output": m["output"], "server_streaming": True}
            if m.get("http"):
                sm["http"] = {"verb": m["http"]["verb"], "path": m["http"]["path"] + ":stream"}
            s["methods"].append(sm)
    if prng.random() < p.get("p_nested_lro_types", 0):
        # operation_info types NESTED in another message, named relative to the package (`RebuildWidgetJob.Result`) or in full
        cands = [(fs, s, m) for fs, s, m in methods if m.get("lro") and not any(x["name"] == m["name"] + "Job" for x in fs["messages"])]
        if cands:
            fs, s, m = prng.choice(cands)
            job = m["name"] + "Job"
            fs["messages"].append({"name": job, "fields": [{"name": "name", "number": 1, "type": "string"}], "messages": [
                {"name": "Result", "fields": [{"name": "name", "number": 1, "type": "string"}, {"name": "rebuilt_parts", "number": 2, "type": "int32"}]},
                {"name": "Metadata", "fields": [{"name": "progress", "number": 1, "type": "int32"}, {"name": "stage", "number": 2, "type": "string"}]}]})
            def w(x):
                return x if prng.random() < 0.6 else fs["package"] + "." + x
            c = prng.random()
            if c < 0.7:
                m["lro"]["response_type"] = w(job + ".Result")
            if c > 0.4:
                m["lro"]["metadata_type"] = w(job + ".Metadata")
    if prng.random() < p.get("p_mixin_in_service_config", 0) and spec.get("service_config") is not None:
        # the gRPC service config names RPCs of the google.longrunning.Operations MIXIN (which the service YAML switches on)
        api = "google.longrunning.Operations"
        y = spec.setdefault("service_yaml", {"type": "google.api.Service", "config_version": 3,
                                             "name": next(s["host"] for fs, s, m in methods)})
        if all(a["name"] != api for a in y.setdefault("apis", [])):
            y["apis"].append({"name": api})
        rules = y.setdefault("http", {}).setdefault("rules", [])
        names = prng.sample(["GetOperation", "ListOperations", "DeleteOperation", "CancelOperation"], prng.randint(1, 3))
        for n in names:
            if all(r["selector"] != f"{api}.{n}" for r in rules):
                rules.append(dict(MIXIN_RULES[api][n], selector=f"{api}.{n}"))
        already = {(x.get("service"), x.get("method")) for e in spec["service_config"].get("methodConfig", []) for x in e.get("name", [])}
        fresh = [n for n in names if (api, n) not in already]
        if fresh:
            e = {"name": [{"service": api, "method": n} for n in fresh], "timeout": prng.choice(["5s", "10s", "20s", "7.5s", "30s"])}
            if prng.random() < 0.85:
                e["retryPolicy"] = {"maxAttempts": prng.randint(2, 5), "initialBackoff": prng.choice(["0.1s", "0.25s", "1s"]),
                                    "maxBackoff": prng.choice(["1s", "4s", "10s"]), "backoffMultiplier": prng.choice([1.3, 2, 1.5]),
                                    "retryableStatusCodes": prng.sample(ALL_CODES, prng.choice([1, 2, 2, 3]))}
            spec["service_config"].setdefault("methodConfig", []).append(e)
    if prng.random() < p.get("p_cstream_of_empty", 0):
        # a client-streaming RPC that answers with google.protobuf.Empty (an upload that only acknowledges)
        cands = [m for fs, s, m in methods if m.get("client_streaming") and not m.get("server_streaming")
                 and m["output"] != ".google.protobuf.Empty"]
        if cands:
            prng.choice(cands)["output"] = ".google.protobuf.Empty"
    if prng.random() < p.get("p_mixin_mixed_body", 0):
        # a mixin http rule whose bindings do not agree on `body` (one carries "*", another none: its fields travel in the query)
        rules = [r for r in ((spec.get("service_yaml") or {}).get("http") or {}).get("rules", [])
                 if r["selector"].startswith(("google.longrunning.", "google.iam.v1.", "google.cloud.location.")) and r.get("body") == "*"
                 and not r["selector"].endswith(".SetIamPolicy")]      # (a Policy cannot travel in a query string: repeated messages)
        if rules:
            r = prng.choice(rules)
            verb = next(k for k in r if k in ("get", "post", "delete"))
            abs_ = r.setdefault("additional_bindings", [])
            other = next((a for a in abs_ if "organizations/*" in a[verb]), None)
            if other is None:
                other = {verb: r[verb].replace("projects/*", "organizations/*"), "body": "*"}
                abs_.append(other)
            if prng.random() < 0.5:
                other.pop("body", None)
            else:
                del r["body"]
    if prng.random() < p.get("p_routing_shorthand", 0):
        # `{key}` without `=`: shorthand for `{key=*}`
        cands = [m for fs, s, m in methods if m.get("routing")]
        if cands:
            m = prng.choice(cands)
            f = m["routing"][0]["field"]
            extra = {"field": f, "path_template": prng.choice(["projects/{project_id}/**", "{project_id}/**", "projects/*/{scope_id}/**"])}
            if prng.random() < 0.5:
                m["routing"].append(extra)
            else:
                m["routing"][prng.randrange(len(m["routing"]))] = extra
    if prng.random() < p.get("p_empty_routing", 0):
        # `option (google.api.routing) = {};`: the annotation is present and names no parameter, which is how AIP-4222
        # switches the implicit header off for one RPC
        cands = [m for fs, s, m in methods if m.get("routing") is None and m.get("http") and "{" in m["http"]["path"]
                 and not m.get("client_streaming")]
        if cands:
            prng.choice(cands)["routing"] = []


def re_update(m):
    """'widget' for an Update<Noun> method whose http path / routing reads `<noun>.name`, else None."""
    import re
    mm = re.fullmatch(r"Update([A-Z][a-z]+)", m["name"])
    return mm.group(1).lower() if mm else None


def _add_auto_populated(cx, pkg, files, services):
    """AIP-4235: give some unary methods 1-2 auto-populated UUID4 request fields (plain or proto3
    optional), sometimes also listed in a method_signature; decoys: an annotated field that is NOT
    listed in the settings, and a listed method with an empty field list."""
    rng = cx.rng
    for s in services:
        for m in s["methods"]:
            if m.get("client_streaming") or m.get("server_streaming"):
                continue
            if not m["input"].startswith("." + pkg + "."):
                continue
            if not cx.chance("p_auto_populate"):
                continue
            req = None
            for f in files:
                for mm in f["messages"]:
                    if "." + pkg + "." + mm["name"] == m["input"]:
                        req = mm
            if req is None or any(f["name"] in ("request_id", "client_token") for f in req["fields"]):
                continue
            base = max(f["number"] for f in req["fields"]) + 1
            names = ["request_id"] + (["client_token"] if rng.random() < 0.3 else [])
            for i, n in enumerate(names):
                f = {"name": n, "number": base + i, "type": "string", "uuid4": True}
                if rng.random() < 0.5:
                    f["optional"] = True
                elif rng.random() < 0.6:
                    # the usual googleapis spelling: a plain string annotated field_behavior = OPTIONAL (documentation
                    # only: it has NO presence, so '' means unset)
                    f["behaviors"] = ["OPTIONAL"]
                req["fields"].append(f)
            if rng.random() < 0.3:     # decoy: annotated but not listed
                req["fields"].append({"name": "trace_id", "number": base + 5, "type": "string", "uuid4": True})
            if rng.random() < 0.5 and "signatures" in m and m["signatures"]:
                m["signatures"] = [m["signatures"][0] + ",request_id"] + m["signatures"][1:]
            elif rng.random() < 0.3 and "signatures" not in m:
                m["signatures"] = ["request_id"]
            cx.auto.append((f"{pkg}.{s['name']}", m["name"], names))


def _path_prefix(cx):
    return "/" + cx.rng.choice(["v1", "v1beta1", "v2"])


def _msg(main, name, fields):
    m = {"name": name, "fields": fields}
    main["messages"].append(m)
    return m


def _unique_method(svc, name):
    return all(m["name"] != name for m in svc["methods"])


def _add_get(cx, pkg, main, svc, noun, res, suffix=""):
    P = "." + pkg
    rname = f"Get{noun}{suffix}Request"
    if any(m["name"] == rname for m in main["messages"]):
        return
    _msg(main, rname, [{"name": "name", "number": 1, "type": "string", "required": True,
                        "resource_ref": res["msg"]["resource"]["type"]}])
    m = {"name": f"Get{noun}{suffix}", "input": P + "." + rname, "output": P + "." + noun}
    if cx.chance("p_http"):
        m["http"] = {"verb": "get", "path": f"{_path_prefix(cx)}/{{name={_wild(res['pattern'])}}}"}
        if cx.chance("p_additional_binding"):
            m["http"]["additional"] = [{"verb": "get", "path": f"{_path_prefix(cx)}/{{name=organizations/*/{res['coll']}/*}}"}]
            if cx.chance("p_body_only_in_additional"):
                # a bodiless primary binding (GET) and an additional POST binding WITH a body (search / fetch style APIs)
                m["http"]["additional"] = [{"verb": "post", "path": f"{_path_prefix(cx)}/{{name=organizations/*/{res['coll']}/*}}:fetch", "body": "*"}]
    if cx.chance("p_signature"):
        m["signatures"] = ["name"]
    if cx.chance("p_routing"):
        m["routing"] = gen_routing(cx.rng, res)
    svc["methods"].append(m)


def _wild(pattern):
    """projects/{project}/widgets/{widget} -> projects/*/widgets/*"""
    import re
    return re.sub(r"\{[^}]+\}", "*", pattern)


def _gen_methods(cx, pkg, main, svc, noun, res, enums, msgs):
    rng = cx.rng
    P = "." + pkg
    rtype = res["msg"]["resource"]["type"]
    coll = res["coll"]
    pre = _path_prefix(cx)
    wild = _wild(res["pattern"])
    pwild = _wild(res["parent_pattern"])
    low = noun.lower()

    if cx.chance("p_get"):
        _add_get(cx, pkg, main, svc, noun, res)

    if cx.chance("p_list") and p_variants(cx):
        _gen_list_variant(cx, pkg, main, svc, noun, res, enums, msgs)
    elif cx.chance("p_list"):
        used = {"parent", "page_size", "page_token"}
        fields = [{"name": "parent", "number": 1, "type": "string", "required": True, "child_ref": rtype},
                  {"name": "page_size", "number": 2, "type": "int32"},
                  {"name": "page_token", "number": 3, "type": "string"}]
        if rng.random() < 0.6:
            fields.append({"name": "filter", "number": 4, "type": "string"})
        if rng.random() < 0.4:
            fields.append({"name": "order_by", "number": 5, "type": "string"})
        if rng.random() < 0.3:
            fields.append({"name": "view", "number": 6, "type": "enum", "type_name": P + ".State"})
        _msg(main, f"List{noun}sRequest", fields)
        rf = [{"name": coll, "number": 1, "type": "message", "type_name": P + "." + noun, "repeated": True},
              {"name": "next_page_token", "number": 2, "type": "string"}]
        if rng.random() < 0.5:
            rf.append({"name": "unreachable", "number": 3, "type": "string", "repeated": True})
        if rng.random() < 0.4:
            rf.append({"name": "total_size", "number": 4, "type": "int32"})
        _msg(main, f"List{noun}sResponse", rf)
        m = {"name": f"List{noun}s", "input": f"{P}.List{noun}sRequest", "output": f"{P}.List{noun}sResponse"}
        if cx.chance("p_http"):
            m["http"] = {"verb": "get", "path": f"{pre}/{{parent={pwild}}}/{coll}"}
            if cx.chance("p_body_only_in_additional"):
                # list/search style: GET with everything in the query, or POST with everything in the body
                m["http"]["additional"] = [{"verb": "post", "path": f"{pre}/{{parent=organizations/*}}/{coll}:search", "body": "*"}]
        if cx.chance("p_signature"):
            m["signatures"] = ["parent"]
        svc["methods"].append(m)
    if cx.chance("p_foreign_paged") and _unique_method(svc, f"List{noun}Sites"):
        # a paginated RPC of the API's own whose request AND response come from a dependency package (pb2 classes, not
        # proto-plus): google.cloud.location's List types, declared as an own RPC as pre-mixin APIs did
        _add_location_dependency(cx)
        m2 = {"name": f"List{noun}Sites", "input": ".google.cloud.location.ListLocationsRequest",
              "output": ".google.cloud.location.ListLocationsResponse"}
        if cx.chance("p_http"):
            m2["http"] = {"verb": "get", "path": f"{pre}/{{name={pwild}}}/sites"}
        svc["methods"].append(m2)

    if cx.chance("p_create"):
        fields = [{"name": "parent", "number": 1, "type": "string", "required": True, "child_ref": rtype},
                  {"name": low, "number": 2, "type": "message", "type_name": P + "." + noun, "required": True},
                  {"name": f"{low}_id", "number": 3, "type": "string"}]
        if rng.random() < 0.4:
            fields.append({"name": "validate_only", "number": 4, "type": "bool"})
        if rng.random() < 0.3:
            # naming coincidence: a required scalar whose name occurs inside the body field's name (wid / widget)
            fields.append({"name": low[:max(2, len(low) // 2)], "number": 5, "type": rng.choice(["int32", "string", "bool"]), "required": True})
        if cx.chance("p_deprecated_flattened"):
            # a field marked [deprecated = true] that is still named in the method_signature (old callers keep passing it)
            for f in fields:
                if f["name"] in (f"{low}_id", "validate_only") and rng.random() < 0.7:
                    f["deprecated"] = True
        _msg(main, f"Create{noun}Request", fields)
        m = {"name": f"Create{noun}", "input": f"{P}.Create{noun}Request", "output": P + "." + noun}
        if cx.chance("p_http"):
            m["http"] = {"verb": "post", "path": f"{pre}/{{parent={pwild}}}/{coll}", "body": low}
            if cx.chance("p_additional_binding") and rng.random() < 0.5:
                if rng.random() < 0.5:
                    m["http"]["body"] = "*"
                    m["http"]["additional"] = [{"verb": "post", "path": f"{pre}/{{parent=organizations/*}}/{coll}", "body": low}]
                else:
                    m["http"]["additional"] = [{"verb": "post", "path": f"{pre}/{{parent=organizations/*}}/{coll}", "body": "*"}]
        if cx.chance("p_signature"):
            m["signatures"] = rng.choice([
                [f"parent,{low},{low}_id"], [f"parent,{low},{low}_id", "parent," + low],
                [f"parent,{low}_id", f"parent,{low},{low}_id"],          # a later signature adds a path whose text occurs inside an earlier one
                ["parent", f"parent,{low},{low}_id"],                    # a later signature adds two new paths
                [f"parent,{low}.name", f"parent,{low},{low}_id"],        # a message field AND a field nested in it are flattened
                [f"{low}_id", f"parent,{low}"]])
        svc["methods"].append(m)

    if cx.chance("p_update"):
        fields = [{"name": low, "number": 1, "type": "message", "type_name": P + "." + noun, "required": True},
                  {"name": "update_mask", "number": 2, "type": "message", "type_name": ".google.protobuf.FieldMask"}]
        if rng.random() < 0.3:
            fields.append({"name": "allow_missing", "number": 3, "type": "bool"})
        _msg(main, f"Update{noun}Request", fields)
        m = {"name": f"Update{noun}", "input": f"{P}.Update{noun}Request", "output": P + "." + noun}
        if cx.chance("p_http"):
            m["http"] = {"verb": rng.choice(["patch", "put"]), "path": f"{pre}/{{{low}.name={wild}}}", "body": low}
        if cx.chance("p_signature"):
            m["signatures"] = [f"{low},update_mask"]
        if cx.chance("p_routing"):
            m["routing"] = gen_routing(rng, res, field=f"{low}.name")
            if cx.chance("p_routing_name_clash"):
                # one rule routes the nested `x.name` AND an unrelated flat field `x_name` (equal once dots become underscores)
                req_m = next(mm for mm in main["messages"] if mm["name"] == f"Update{noun}Request")
                req_m["fields"].append({"name": f"{low}_name", "number": 7, "type": "string"})
                extra = {"field": f"{low}_name", "path_template": "{flat_id=**}"} if rng.random() < 0.5 else {"field": f"{low}_name"}
                m["routing"] = (m["routing"] + [extra]) if rng.random() < 0.5 else ([extra] + m["routing"])
        svc["methods"].append(m)

    if cx.chance("p_deep_path_var") and _unique_method(svc, f"Amend{noun}"):
        # a path variable THREE levels deep: {change.<noun>.name=...} (implicit routing reads request.change.<noun>.name)
        _msg(main, f"{noun}Change", [{"name": low, "number": 1, "type": "message", "type_name": P + "." + noun},
                                     {"name": "reason", "number": 2, "type": "string"}])
        _msg(main, f"Amend{noun}Request", [{"name": "change", "number": 1, "type": "message", "type_name": f"{P}.{noun}Change", "required": True},
                                           {"name": "dry_run", "number": 2, "type": "bool"}])
        m = {"name": f"Amend{noun}", "input": f"{P}.Amend{noun}Request", "output": P + "." + noun,
             "http": {"verb": "patch", "path": f"{pre}/{{change.{low}.name={wild}}}:amend", "body": "change"}}
        svc["methods"].append(m)

    if cx.chance("p_delete"):
        fields = [{"name": "name", "number": 1, "type": "string", "required": True, "resource_ref": rtype}]
        if rng.random() < 0.4:
            fields.append({"name": "etag", "number": 2, "type": "string"})
        if rng.random() < 0.3:
            fields.append({"name": "force", "number": 3, "type": "bool"})
        clash = None
        if cx.chance("p_param_name_collision"):
            # a request field named like a parameter of every client method, and flattened (known finding 11)
            clash = rng.choice(["timeout", "retry", "metadata", "request"])
            fields.append({"name": clash, "number": 7, "type": "string"})
        _msg(main, f"Delete{noun}Request", fields)
        m = {"name": f"Delete{noun}", "input": f"{P}.Delete{noun}Request", "output": ".google.protobuf.Empty"}
        if cx.chance("p_http"):
            m["http"] = {"verb": "delete", "path": f"{pre}/{{name={wild}}}"}
        if cx.chance("p_signature"):
            m["signatures"] = ["name"]
        if clash:
            m["signatures"] = ["name," + clash]
        if cx.chance("p_routing"):
            m["routing"] = gen_routing(rng, res)
        svc["methods"].append(m)

    if cx.chance("p_custom"):
        verb = rng.choice(VERBS)
        mname = f"{verb}{noun}"
        if cx.chance("p_keyword_rpc"):
            cands = [k for k in KEYWORD_RPCS + (TRANSPORT_MEMBER_RPCS if cx.rng.random() < 0.4 else []) if _unique_method(svc, k)]
            if cands:
                mname = rng.choice(cands)
        if _unique_method(svc, mname) and not any(m["name"] == f"{mname}Request" for m in main["messages"]):
            used = {"name"}
            fields = [{"name": "name", "number": 1, "type": "string", "required": True, "resource_ref": rtype}]
            nums = _number_seq(cx, 4, 2)
            for i in range(rng.randint(1, 4)):
                fields.append(_rand_field(cx, used, nums[i], enums, msgs, allow_value=True))
            # a required scalar that is neither in path nor body (C04's required-default rule)
            if rng.random() < 0.4:
                t = rng.choice(["int32", "bool", "string", "double", "int64", "uint32"])
                pool = [n for n in ["type", "max", "format", "license"] if n not in used] if rng.random() < 0.3 else None
                nm = rng.choice(pool) if pool else _fresh_name(rng, used)
                used.add(nm)
                fields.append({"name": nm, "number": 12, "type": t, "required": True})
                if cx.chance("p_required_optional"):
                    fields[-1]["optional"] = True      # REQUIRED and proto3-`optional` (a synthetic one-member oneof)
            if cx.chance("p_case_twin_fields") and not ({"user_name", "username"} & used):
                # two fields whose JSON names differ only in case (userName / username): a REQUIRED new spelling next to a
                # legacy one
                fields.append({"name": "user_name", "number": 13, "type": "string", "required": True})
                fields.append({"name": "username", "number": 14, "type": "string"})
                used |= {"user_name", "username"}
            _msg(main, f"{mname}Request", fields)
            out = rng.choice([P + "." + noun, P + "." + noun, ".google.protobuf.Empty", f"{P}.{mname}Response"])
            if cx.chance("p_local_empty"):
                # a package-local message that merely happens to be called Empty (it is NOT google.protobuf.Empty)
                if not any(mm["name"] == "Empty" for f in cx.files for mm in f["messages"]):
                    _msg(main, "Empty", [{"name": "note", "number": 1, "type": "string"}, {"name": "code", "number": 2, "type": "int32"}])
                out = P + ".Empty"
            if out.endswith("Response"):
                _msg(main, f"{mname}Response", [{"name": low, "number": 1, "type": "message", "type_name": P + "." + noun},
                                                 {"name": "note", "number": 2, "type": "string"}])
            m = {"name": mname, "input": f"{P}.{mname}Request", "output": out}
            if cx.chance("p_http"):
                body = rng.choice(["*", "*", "", ""])
                verbh = "post" if body else rng.choice(["get", "post"])
                m["http"] = {"verb": verbh, "path": f"{pre}/{{name={wild}}}:{verb.lower()}"}
                if cx.chance("p_double_star_path"):
                    m["http"]["path"] = f"{pre}/{{name={wild}/**}}:{verb.lower()}"
                if body:
                    m["http"]["body"] = body
                    if cx.chance("p_body_only_in_additional") and all(f["type"] != "message" and not f.get("map") for f in fields):
                        # the mirror image: the PRIMARY binding has a body, an additional GET binding has none
                        m["http"]["additional"] = [{"verb": "get", "path": f"{pre}/{{name=organizations/*/{coll}/*}}:{verb.lower()}"}]
                elif cx.chance("p_custom_http_pattern"):
                    m["http"].update({"verb": "custom", "kind": rng.choice(["HEAD", "OPTIONS"])})
            if cx.chance("p_signature") and cx.p.get("sig_variants"):
                m["signatures"] = _sig_variants(cx, pkg, fields)
            elif cx.chance("p_signature"):
                sig = ["name"] + [f["name"] for f in fields[1:] if rng.random() < 0.5 and not f.get("oneof")]
                m["signatures"] = [",".join(sig)]
            if cx.chance("p_routing"):
                m["routing"] = gen_routing(rng, res)
            svc["methods"].append(m)

    if cx.chance("p_multi_var_path") and _unique_method(svc, f"Fetch{noun}"):
        # two path variables: a templated one followed by a bare one that is a required field
        idf = f"{low}_id"
        if cx.chance("p_reserved_path_var"):
            idf = rng.choice(["type", "format", "license", "object", "class"])
        fields = [{"name": "parent", "number": 1, "type": "string", "required": True, "child_ref": rtype},
                  {"name": idf, "number": 2, "type": "string", "required": True}]
        used = {"parent", idf}
        nums = _number_seq(cx, 3, 3)
        for i in range(rng.randint(0, 3)):
            f = _rand_field(cx, used, nums[i], enums, [])
            if f["type"] == "message" or f.get("map"):
                continue
            fields.append(f)
        extra = None
        if rng.random() < 0.6:
            pool = [n for n in (["type", "max", "format", "license"] if rng.random() < 0.4 else FIELD_NAMES) if n not in used]
            extra = rng.choice(pool)
            used.add(extra)
            fields.append({"name": extra, "number": 11, "type": rng.choice(["int32", "bool", "string", "int64", "double", "string"]),
                           "required": True})
            if cx.chance("p_required_enum"):
                fields[-1].update({"type": "enum", "type_name": P + ".State"})
        _msg(main, f"Fetch{noun}Request", fields)
        m = {"name": f"Fetch{noun}", "input": f"{P}.Fetch{noun}Request", "output": P + "." + noun,
             "http": {"verb": "get", "path": f"{pre}/{{parent={pwild}}}/{coll}/{{{idf}}}"}}
        if rng.random() < 0.3:
            m["http"]["path"] += ":fetch"
        if extra and fields[-1]["type"] == "string" and cx.chance("p_additional_binding"):
            # an ADDITIONAL binding that binds a required scalar in its path which the primary one leaves to the query
            m["http"]["additional"] = [{"verb": "get", "path": f"{pre}/{{parent={pwild}}}/{coll}/{{{idf}}}/variants/{{{extra}}}"}]
        if cx.chance("p_signature"):
            m["signatures"] = [f"parent,{idf}"]
        svc["methods"].append(m)

    if cx.chance("p_mixed_foreign_io"):
        if rng.random() < 0.5 and _unique_method(svc, f"GetDefault{noun}"):
            # dependency-package REQUEST (google.protobuf.Empty), own-package reply
            m = {"name": f"GetDefault{noun}", "input": ".google.protobuf.Empty", "output": P + "." + noun}
            if cx.chance("p_http"):
                m["http"] = {"verb": "get", "path": f"{pre}/{coll}:default"}
            svc["methods"].append(m)
        elif _unique_method(svc, f"Get{noun}Policy"):
            # own-package request, dependency-package REPLY (google.iam.v1.Policy)
            _msg(main, f"Get{noun}PolicyRequest", [{"name": "name", "number": 1, "type": "string", "required": True}])
            m = {"name": f"Get{noun}Policy", "input": f"{P}.Get{noun}PolicyRequest", "output": ".google.iam.v1.Policy"}
            if cx.chance("p_http"):
                m["http"] = {"verb": "get", "path": f"{pre}/{{name={wild}}}:policy"}
            svc["methods"].append(m)

    if cx.chance("p_sstream") and _unique_method(svc, f"Watch{noun}s"):
        _msg(main, f"Watch{noun}sRequest", [{"name": "parent", "number": 1, "type": "string"},
                                             {"name": "filter", "number": 2, "type": "string"}])
        m = {"name": f"Watch{noun}s", "input": f"{P}.Watch{noun}sRequest", "output": P + "." + noun,
             "server_streaming": True}
        if cx.chance("p_stream_of_empty"):
            m["output"] = ".google.protobuf.Empty"       # a heartbeat stream: the messages carry nothing, their arrival does
        if cx.chance("p_http"):
            m["http"] = {"verb": "get", "path": f"{pre}/{{parent={pwild}}}/{coll}:watch"}
        svc["methods"].append(m)

    if cx.chance("p_cstream") and _unique_method(svc, f"Upload{noun}s"):
        _msg(main, f"Upload{noun}sSummary", [{"name": "count", "number": 1, "type": "int32"},
                                              {"name": "names", "number": 2, "type": "string", "repeated": True}])
        um = {"name": f"Upload{noun}s", "input": P + "." + noun,
              "output": f"{P}.Upload{noun}sSummary", "client_streaming": True}
        if cx.chance("p_stream_routing"):
            # a client-streaming RPC that nevertheless carries an http rule with a path variable and/or a routing
            # annotation: no single request exists when the call starts, so no routing value can be sent
            um["http"] = {"verb": "post", "path": f"{pre}/{{name={wild}}}:upload", "body": "*"}
            if rng.random() < 0.6:
                um["routing"] = gen_routing(rng, res)
        svc["methods"].append(um)

    if cx.chance("p_bidi") and _unique_method(svc, f"Sync{noun}s"):
        svc["methods"].append({"name": f"Sync{noun}s", "input": P + "." + noun,
                               "output": ".google.protobuf.Empty" if cx.chance("p_stream_of_empty") else P + "." + noun,
                               "client_streaming": True, "server_streaming": True})

    if cx.chance("p_lro") and cx.p.get("lro_variants") and _unique_method(svc, f"Rebuild{noun}"):
        _gen_lro_variant(cx, pkg, main, svc, noun, res)
    elif cx.chance("p_lro") and _unique_method(svc, f"Rebuild{noun}"):
        _msg(main, f"Rebuild{noun}Request", [{"name": "name", "number": 1, "type": "string", "required": True,
                                               "resource_ref": rtype},
                                              {"name": "deep", "number": 2, "type": "bool"}])
        _msg(main, f"Rebuild{noun}Metadata", [{"name": "progress", "number": 1, "type": "int32"},
                                               {"name": "stage", "number": 2, "type": "string"}])
        resp = rng.choice([noun, noun, "google.protobuf.Empty", P.lstrip(".") + "." + noun])
        m = {"name": f"Rebuild{noun}", "input": f"{P}.Rebuild{noun}Request", "output": ".google.longrunning.Operation",
             "lro": {"response_type": resp, "metadata_type": f"Rebuild{noun}Metadata"}}
        if cx.chance("p_http"):
            m["http"] = {"verb": "post", "path": f"{pre}/{{name={wild}}}:rebuild", "body": "*"}
        if cx.chance("p_signature"):
            m["signatures"] = ["name"]
        svc["methods"].append(m)

    if cx.chance("p_raw_op") and _unique_method(svc, f"Start{noun}"):
        _msg(main, f"Start{noun}Request", [{"name": "name", "number": 1, "type": "string", "required": True,
                                             "resource_ref": rtype}])
        m = {"name": f"Start{noun}", "input": f"{P}.Start{noun}Request", "output": ".google.longrunning.Operation"}
        if cx.chance("p_http"):
            m["http"] = {"verb": "post", "path": f"{pre}/{{name={wild}}}:start", "body": "*"}
        svc["methods"].append(m)

    if cx.chance("p_foreign_request") and all(_unique_method(svc, n) for n in ("SetIamPolicy", "GetIamPolicy", "TestIamPermissions")):
        m = {"name": "SetIamPolicy", "input": ".google.iam.v1.SetIamPolicyRequest", "output": ".google.iam.v1.Policy"}
        if cx.chance("p_signature"):
            m["signatures"] = [rng.choice(["resource", "resource,policy", "resource,policy,update_mask"])]
        if cx.p.get("sig_variants") and rng.random() < 0.5:
            m.update({"name": "TestIamPermissions", "input": ".google.iam.v1.TestIamPermissionsRequest",
                      "output": ".google.iam.v1.TestIamPermissionsResponse", "signatures": ["resource,permissions"]})
            if "http" in m:
                m["http"]["path"] = m["http"]["path"].rsplit(":", 1)[0] + ":testIamPermissions"
        if cx.p.get("mixin_variants"):
            which = rng.choice(["SetIamPolicy", "GetIamPolicy", "TestIamPermissions"])
            io = {"SetIamPolicy": (".google.iam.v1.SetIamPolicyRequest", ".google.iam.v1.Policy"),
                  "GetIamPolicy": (".google.iam.v1.GetIamPolicyRequest", ".google.iam.v1.Policy"),
                  "TestIamPermissions": (".google.iam.v1.TestIamPermissionsRequest", ".google.iam.v1.TestIamPermissionsResponse")}[which]
            m["name"], m["input"], m["output"] = which, io[0], io[1]
            m.pop("signatures", None)
            if "http" in m:
                m["http"]["path"] = m["http"]["path"].rsplit(":", 1)[0] + ":" + which[0].lower() + which[1:]
        if cx.chance("p_http"):
            m["http"] = {"verb": "post", "path": f"{pre}/{{resource={wild}}}:setIamPolicy", "body": "*"}
        svc["methods"].append(m)


def _gen_lro_variant(cx, pkg, main, svc, noun, res):
    """LRO method whose operation_info names are written relative or fully-qualified and whose types
    live in the service's file, in another target file that is imported, in a target file that is
    NOT imported by the service's file, or are google.protobuf.Empty (DESIGN.md section 4 C08)."""
    rng = cx.rng
    P = "." + pkg
    spec_files = cx.files
    rtype = res["msg"]["resource"]["type"]
    pdir = pkg.replace(".", "/")

    def place(msg, where):
        if where == "same":
            main["messages"].append(msg)
        elif where == "unimported":
            f = next((f for f in spec_files if f.get("role") == "results"), None)
            if f is None:
                f = {"name": f"{pdir}/results.proto", "package": pkg, "messages": [], "enums": [], "role": "results"}
                spec_files.insert(0, f)
            f["messages"].append(msg)
        else:  # "common": the resources file when there is one (imported iff something references it)
            f = next((f for f in spec_files if f.get("role") == "common"), main)
            f["messages"].append(msg)

    def written(name):
        return name if rng.random() < 0.5 else f"{pkg}.{name}"

    _msg(main, f"Rebuild{noun}Request", [{"name": "name", "number": 1, "type": "string", "required": True,
                                           "resource_ref": rtype},
                                          {"name": "deep", "number": 2, "type": "bool"}])
    c = rng.random()
    if c < 0.2:
        resp = "google.protobuf.Empty"
    elif c < 0.45:
        resp = written(noun)                      # the resource itself (wherever it lives)
    else:
        rn = f"Rebuild{noun}Result"
        if pkg.startswith("google.api.") and rng.random() < 0.6:
            # same short name as a message of the ancestor package google.api that is in the request
            cands = [d for d in ("HttpRule", "Http", "CustomHttpPattern", "ResourceDescriptor", "ResourceReference")
                     if not any(mm["name"] == d for f in spec_files for mm in f["messages"])]
            if cands:
                rn = rng.choice(cands)
        place({"name": rn, "fields": [{"name": "name", "number": 1, "type": "string"},
                                      {"name": "rebuilt_parts", "number": 2, "type": "int32"},
                                      {"name": "warnings", "number": 3, "type": "string", "repeated": True}]},
              rng.choice(["same", "unimported", "common"]))
        resp = written(rn)
    c = rng.random()
    if c < 0.12:
        meta = "google.protobuf.Empty"
    else:
        mn = f"Rebuild{noun}Metadata"
        place({"name": mn, "fields": [{"name": "progress", "number": 1, "type": "int32"},
                                      {"name": "stage", "number": 2, "type": "string"}]},
              rng.choice(["same", "same", "unimported", "common"]))
        meta = written(mn)
    m = {"name": f"Rebuild{noun}", "input": f"{P}.Rebuild{noun}Request", "output": ".google.longrunning.Operation",
         "lro": {"response_type": resp, "metadata_type": meta}}
    if cx.chance("p_http"):
        m["http"] = {"verb": "post", "path": f"{_path_prefix(cx)}/{{name={_wild(res['pattern'])}}}:rebuild", "body": "*"}
    if cx.chance("p_signature"):
        m["signatures"] = ["name"]
    svc["methods"].append(m)
    if rng.random() < 0.3 and _unique_method(svc, f"Replace{noun}"):
        # a SECOND long-running method with the same (response, metadata) pair whose flattened parameter is a message
        # field named like the resource (and, with common_file_names, like the proto module that defines it)
        low = noun.lower()
        _msg(main, f"Replace{noun}Request", [{"name": "parent", "number": 1, "type": "string", "required": True},
                                               {"name": low, "number": 2, "type": "message", "type_name": P + "." + noun}])
        m2 = {"name": f"Replace{noun}", "input": f"{P}.Replace{noun}Request", "output": ".google.longrunning.Operation",
              "lro": dict(m["lro"]), "signatures": [f"parent,{low}"]}
        if cx.chance("p_http"):
            m2["http"] = {"verb": "post", "path": f"{_path_prefix(cx)}/{{parent={_wild(res['parent_pattern'])}}}/{res['coll']}:replace", "body": low}
        svc["methods"].append(m2)


def _lookup_msg(cx, type_name):
    for f in cx.files:
        for mm in f["messages"]:
            if "." + f["package"] + "." + mm["name"] == type_name:
                return mm
    return None


def _sig_variants(cx, pkg, fields):
    """method_signature entries over top-level and dotted (one level) fields of every kind:
    scalar / optional / message / enum / repeated / map / reserved-word names (DESIGN.md section 4 C05)."""
    rng = cx.rng
    cands = []
    for f in fields:
        cands.append(f["name"])
        if f["type"] == "message" and not f.get("repeated") and not f.get("map") and f.get("type_name", "").startswith("." + pkg + "."):
            sub = _lookup_msg(cx, f["type_name"])
            if sub is not None:
                for g in sub["fields"]:
                    cands.append(f["name"] + "." + g["name"])
    sigs = []
    for _ in range(rng.choice([1, 1, 2])):
        k = rng.randint(1, min(4, len(cands)))
        pick = rng.sample(cands, k)
        sigs.append(pick)
    # leaf names must be unique across the union, and a parent must not be listed with its child
    seen, out = {}, []
    for sg in sigs:
        keep = []
        for path in sg:
            leaf = path.split(".")[-1]
            if seen.get(leaf, path) != path:
                continue
            if any(p2 != path and (p2.startswith(path + ".") or path.startswith(p2 + ".")) for p2 in seen.values()):
                continue
            seen[leaf] = path
            keep.append(path)
        if keep:
            out.append(",".join(keep))
    out = out or ["name"]
    if rng.random() < 0.2:
        out.insert(rng.randint(0, len(out)), "")     # the (legal) empty signature, not necessarily last
    return out


def p_variants(cx):
    return bool(cx.p.get("paged_variants"))


def _gen_list_variant(cx, pkg, main, svc, noun, res, enums, msgs):
    """List method whose request/response shapes are drawn around the AIP-4233 rule: each
    ingredient present / absent / mistyped (DESIGN.md section 4 C07, classification half)."""
    rng = cx.rng
    P = "." + pkg
    coll = res["coll"]
    rtype = res["msg"]["resource"]["type"]
    fields = [{"name": "parent", "type": "string", "required": True, "child_ref": rtype}]
    c = rng.random()
    if c < 0.82:
        fields.append({"name": "page_token", "type": "string"})
    elif c < 0.9:
        fields.append({"name": "page_token", "type": rng.choice(["bytes", "int32"])})
    elif c < 0.94:
        fields.append({"name": "page_token", "type": "string", "repeated": True})     # a LIST of strings is not "a string"
    c = rng.random()
    if c < 0.5:
        fields.append({"name": "page_size", "type": "int32"})
        if rng.random() < 0.06:
            fields[-1]["repeated"] = True                                              # nor is a list of integers an integer
    elif c < 0.62:
        fields.append({"name": "page_size", "type": rng.choice(["int64", "uint32", "sint32", "fixed32"])})
    elif c < 0.70:
        fields.append({"name": "max_results", "type": rng.choice(["int32", "uint32"])})
    elif c < 0.76:
        fields.append({"name": "max_results", "type": "message", "type_name": ".google.protobuf.Int32Value"})
    elif c < 0.82:
        fields.append({"name": "max_results", "type": "message", "type_name": ".google.protobuf.UInt32Value"})
    elif c < 0.88:
        fields.append({"name": "page_size", "type": rng.choice(["string", "bool", "double"])})
    elif c < 0.92:
        fields.append({"name": "max_results", "type": rng.choice(["string", "message"]),
                       "type_name": ".google.protobuf.StringValue"})
        if fields[-1]["type"] == "string":
            fields[-1].pop("type_name")
    if rng.random() < 0.5:
        fields.append({"name": "filter", "type": "string"})
    if rng.random() < 0.3:
        fields.append({"name": "order_by", "type": "string"})
    if rng.random() < 0.3:
        fields.append({"name": "show_deleted", "type": "bool"})
    if rng.random() < 0.2:
        # google.cloud.compute.v1 style: the paging fields are declared proto3 `optional` (each gets a synthetic oneof)
        for f in fields:
            if f["name"] in ("page_token", "page_size", "max_results") and not f.get("repeated") and f["type"] != "message":
                f["optional"] = True
        cx.optional_paging = True
    head, tail = fields[:1], fields[1:]
    rng.shuffle(tail)
    fields = head + tail
    for f, n in zip(fields, _number_seq(cx, len(fields))):
        f["number"] = n
    _msg(main, f"List{noun}sRequest", fields)

    rf = []
    c = rng.random()
    if c < 0.86:
        rf.append({"name": "next_page_token", "type": "string"})
    elif c < 0.93:
        rf.append({"name": "next_page_token", "type": rng.choice(["bytes", "int64"])})
    elif c < 0.96:
        rf.append({"name": "next_page_token", "type": "string", "repeated": True})
    if rf and not rf[-1].get("repeated") and getattr(cx, "optional_paging", False):
        rf[-1]["optional"] = True
        cx.optional_paging = False
    reps = []
    c = rng.random()
    if c < 0.55:
        reps.append({"name": coll, "type": "message", "type_name": P + "." + noun, "repeated": True})
    elif c < 0.7:
        reps.append({"name": coll, "type": rng.choice(["string", "int64", "bytes"]), "repeated": True})
    elif c < 0.82:
        reps.append({"name": coll, "type": "message",
                     "map": {"key": rng.choice(["string", "int32"]),
                             "value": rng.choice([{"type": "message", "type_name": P + "." + noun}, {"type": "string"}])}})
    elif c < 0.9:
        reps.append({"name": coll, "type": "enum", "type_name": P + ".State", "repeated": True})
    # else: no repeated field at all
    if reps and rng.random() < 0.5:
        reps.append({"name": "unreachable", "type": "string", "repeated": True})
    if reps and rng.random() < 0.2:
        reps.append({"name": "related", "type": "message", "type_name": P + ".Detail", "repeated": True})
    scal = []
    if rng.random() < 0.5:
        scal.append({"name": "total_size", "type": "int32"})
    if rng.random() < 0.3:
        scal.append({"name": "etag", "type": "string"})
    # declaration order: repeated fields keep their relative order (the FIRST one is the paged field);
    # singular fields are sprinkled around them
    order = list(reps)
    for x in rf + scal:
        order.insert(rng.randint(0, len(order)), x)
    for f, n in zip(order, _number_seq(cx, len(order))):
        f["number"] = n
    _msg(main, f"List{noun}sResponse", order)
    m = {"name": f"List{noun}s", "input": f"{P}.List{noun}sRequest", "output": f"{P}.List{noun}sResponse"}
    if cx.chance("p_http"):
        m["http"] = {"verb": "get", "path": f"{_path_prefix(cx)}/{{parent={_wild(res['parent_pattern'])}}}/{coll}"}
    if cx.chance("p_signature"):
        m["signatures"] = ["parent"]
    svc["methods"].append(m)


def gen_routing(rng, res, field="name"):
    """Explicit google.api.routing parameters over a resource-name field (AIP-4222 shapes: no
    template, {k=*}-style captures, {k=**}, literal prefixes/suffixes, several parameters sharing a
    key, nested fields)."""
    pat = res["pattern"]               # projects/{project}/[locations/{location}/]coll/{x}
    segs = pat.split("/")
    wild = ["*" if x.startswith("{") else x for x in segs]
    shapes = [
        {"field": field},
        {"field": field, "path_template": "{routing_id=projects/*}/**"},
        {"field": field, "path_template": "{routing_id=**}"},
        {"field": field, "path_template": "{routing_id=" + "/".join(wild) + "}"},
        {"field": field, "path_template": "{project=projects/*}/" + "/".join(wild[2:])},
        {"field": field, "path_template": "projects/*/{" + segs[2][:-1].rstrip("e") + "_part=" + "/".join(wild[2:4]) + "}" + ("/**" if len(segs) > 4 else "")},
        {"field": field, "path_template": "{routing_id=projects/*/" + wild[2] + "/*}" + ("/**" if len(segs) > 4 else "")},
        {"field": field, "path_template": "{" + segs[-2][:-1] + "_id=" + "/".join(wild) + "}"},
        {"field": field, "path_template": "projects/*/{rest=**}"},
        {"field": field, "path_template": "/".join(wild[:2]) + "/{routing_id=**}"},
    ]
    c = rng.random()
    if c < 0.12:
        a, b = shapes[1], shapes[2]           # same key routing_id, both can match with different captures
        return [dict(a), dict(b), dict(a)] if rng.random() < 0.5 else [dict(b), dict(a), dict(b)]
    if c < 0.24 and "." not in field:
        # a parameter WITHOUT template (key = field name) listed before / after a templated one with the same key
        t = {"field": field, "path_template": "{" + field + "=projects/*}/**"}
        return [{"field": field}, t] if rng.random() < 0.6 else [t, {"field": field}]
    n = rng.randint(1, 3)
    return [dict(rng.choice(shapes)) for _ in range(n)]


def _dur(rng):
    return rng.choice(["0.25s", "0.5s", "1s", "1.5s", "2s", "0.1s", "3s", "10s", "0.75s", "0.05s", "1.075s", "0.025s", "2.05s"])


def gen_service_config(rng, spec, p_named=0.7):
    """gRPC service config over the spec's methods (exclusions: DESIGN.md section 3)."""
    methods = [(fs["package"] + "." + s["name"], m["name"]) for fs in spec["files"] for s in fs.get("services", ())
               for m in s["methods"]]
    rng.shuffle(methods)
    named = [m for m in methods if rng.random() < p_named]
    entries = []
    while named:
        k = min(len(named), rng.choice([1, 1, 2, 3]))
        grp, named = named[:k], named[k:]
        # (JSON objects are unordered: a key-sorting formatter writes "method" before "service")
        e = {"name": [({"service": s, "method": m} if rng.random() < 0.7 else {"method": m, "service": s}) for s, m in grp]}
        c = rng.random()
        if c < 0.85:
            e["timeout"] = rng.choice(["5s", "10s", "20s", "60s", "7.5s", "2.5s", "30s", "12.25s", "600s", "2.05s", "10.005s", "0.5s", "0.75s", "1s"])
        if rng.random() < 0.7:
            ncodes = rng.choice([1, 1, 2, 2, 3, 5])
            e["retryPolicy"] = {
                "maxAttempts": rng.randint(2, 6),
                "initialBackoff": _dur(rng),
                "maxBackoff": rng.choice(["1s", "2s", "4s", "10s", "32s", "60s", "0.5s", "6.5s", "1.075s", "8.0625s"]),
                "backoffMultiplier": rng.choice([1.3, 2, 1.5, 3, 1.25, 2.5, 1, 0.5]),
                "retryableStatusCodes": rng.sample(ALL_CODES, ncodes),
            }
        if "retryPolicy" in e and rng.random() < 0.3:
            # real configs share ONE policy between entries that differ only in their timeout
            prev = [x for x in entries if "retryPolicy" in x]
            if prev:
                e["retryPolicy"] = copy.deepcopy(rng.choice(prev)["retryPolicy"])
        entries.append(e)
    if rng.random() < 0.2 and methods:
        # a SERVICE-WIDE entry (name without method).  This generator matches exact {service, method} names only, so it
        # configures nothing - in particular it must not take precedence over a method's own entry, wherever it stands
        svc_name = rng.choice(methods)[0]
        e = {"name": [{"service": svc_name}], "timeout": rng.choice(["3s", "45s", "90s"]),
             "retryPolicy": {"maxAttempts": 4, "initialBackoff": "0.2s", "maxBackoff": "3s", "backoffMultiplier": 2,
                             "retryableStatusCodes": rng.sample(ALL_CODES, 2)}}
        entries.insert(0 if rng.random() < 0.6 else rng.randrange(len(entries) + 1), e)
    if rng.random() < 0.08:
        # legal and inert: an entry that names no method at all (gRPC: applies to nothing), e.g. a forgotten default
        entries.insert(rng.randrange(len(entries) + 1), {"timeout": "45s"})
    return {"methodConfig": entries}


def _add_location_dependency(cx):
    """google/cloud/location/locations.proto as a dependency-only file of the spec (converted from the installed pb2
    descriptor), so that the spec-based oracles can look its messages up like any other."""
    if any(f["name"] == "google/cloud/location/locations.proto" for f in cx.files):
        return
    from google.cloud.location import locations_pb2
    from google.protobuf import descriptor_pb2
    from . import fromdesc
    fdp = descriptor_pb2.FileDescriptorProto()
    locations_pb2.DESCRIPTOR.CopyToProto(fdp)
    dep = fromdesc.spec_from_files([fdp], [fdp.name])["files"][0]
    dep["dependency_only"] = True
    dep.pop("services", None)
    dep["imports"] = list(fdp.dependency)
    cx.files.insert(0, dep)


def twin_spec(rng, spec):
    """The SAME API with edited option files: what a persistent build worker sees when a service config or a
    service YAML was changed between two builds.  Used as the decoy of process-reuse worlds: state keyed by
    anything but the CONTENT of an option file (object identity, path, package name) leaks here."""
    import copy
    twin = copy.deepcopy(spec)
    if twin.get("service_config") is not None or rng.random() < 0.3:
        twin["service_config"] = gen_service_config(rng, twin, p_named=rng.choice([0.4, 0.7, 1.0]))
    for f in twin["files"]:
        for rd in f.get("resource_definitions", ()):
            # the resource's pattern was edited too (same type, other pattern)
            rd["patterns"] = ["organizations/{organization}/" + rd["patterns"][0]] if rng.random() < 0.7 else rd["patterns"]
    y = twin.get("service_yaml")
    if y:
        rules = (y.get("http") or {}).get("rules")
        if rules and rng.random() < 0.6:
            rng.shuffle(rules)
            if len(rules) > 1 and rng.random() < 0.5:
                rules.pop()
        if y.get("apis") and len(y["apis"]) > 1 and rng.random() < 0.4:
            y["apis"].pop(rng.randrange(len(y["apis"])))
        ms = (y.get("publishing") or {}).get("method_settings")
        if ms and rng.random() < 0.6:
            ms.pop(rng.randrange(len(ms)))
    return twin


def broken_twin(spec):
    """The same API with method settings naming a method that does not exist: its generation FAILS (MethodSettingsError)
    after the schema was built half-way.  Used as a decoy: a failed build in a persistent worker must leave nothing behind."""
    import copy
    bad = copy.deepcopy(spec)
    y = bad.get("service_yaml") or {"type": "google.api.Service", "config_version": 3, "name": "x.example.com"}
    bad["service_yaml"] = y
    y.setdefault("publishing", {})["method_settings"] = [{"selector": bad["package"] + ".NoSuchService.NoSuchMethod",
                                                          "auto_populated_fields": ["request_id"]}]
    return bad


def broken_twin_in_build(spec):
    """An EDITED copy of the API whose generation dies INSIDE API.build, after the first (types) pass has seen every
    file and before the second pass reaches most of them: other comments everywhere, a new message in front of the first
    file (every descriptor path there shifts), and a new DRAFT proto file, listed first, whose only RPC is long-running
    with an operation_info naming a type that does not exist.  What a user has just before deleting the draft (or
    fixing it) and regenerating."""
    import copy
    bad = copy.deepcopy(spec)
    bad["comment_salt"] = "as edited"
    f0 = bad["files"][0]
    f0["messages"].insert(0, {"name": "ZzDraftNote", "fields": [{"name": "text", "number": 1, "type": "string"}]})
    pkg = f0["package"]
    d = os.path.dirname(f0["name"])
    draft = {"name": (d + "/" if d else "") + "aaa_draft.proto", "package": pkg,
             "messages": [{"name": "ZzDraftRebuildRequest", "fields": [{"name": "name", "number": 1, "type": "string"}]}],
             "services": [{"name": "ZzDraftService", "host": "draft.example.com", "methods": [
                 {"name": "ZzDraftRebuild", "input": "." + pkg + ".ZzDraftRebuildRequest", "output": ".google.longrunning.Operation",
                  "lro": {"response_type": "NoSuchDraftType", "metadata_type": "NoSuchDraftType"}}]}]}
    bad["files"].insert(0, draft)
    return bad


MIXIN_RULES = {
    "google.longrunning.Operations": {
        "ListOperations": {"get": "/v1/{name=projects/*}/operations"},
        "GetOperation": {"get": "/v1/{name=projects/*/operations/*}"},
        "DeleteOperation": {"delete": "/v1/{name=projects/*/operations/*}"},
        "CancelOperation": {"post": "/v1/{name=projects/*/operations/*}:cancel", "body": "*"},
        "WaitOperation": {"post": "/v1/{name=projects/*/operations/*}:wait", "body": "*"},
    },
    "google.iam.v1.IAMPolicy": {
        "SetIamPolicy": {"post": "/v1/{resource=projects/*/things/*}:setIamPolicy", "body": "*"},
        "GetIamPolicy": {"post": "/v1/{resource=projects/*/things/*}:getIamPolicy", "body": "*"},
        "TestIamPermissions": {"post": "/v1/{resource=projects/*/things/*}:testIamPermissions", "body": "*"},
    },
    "google.cloud.location.Locations": {
        "GetLocation": {"get": "/v1/{name=projects/*/locations/*}"},
        "ListLocations": {"get": "/v1/{name=projects/*}/locations"},
    },
}


def gen_mixin_yaml(cx, spec, host, need_ops):
    """Service YAML with each subset of the three mixin APIs x rule sets (DESIGN.md section 4 C17);
    some rules carry additional_bindings (another version prefix / another collection)."""
    rng = cx.rng
    y = {"type": "google.api.Service", "config_version": 3, "name": host, "apis": [], "http": {"rules": []}}
    for api, rules in MIXIN_RULES.items():
        listed = rng.random() < 0.6 or (need_ops and api == "google.longrunning.Operations")
        if listed:
            y["apis"].append({"name": api})
        # rules may be present even when the API is not listed (then nothing must be exposed)
        if listed or rng.random() < 0.25:
            names = [n for n in rules if rng.random() < 0.65]
            if need_ops and api == "google.longrunning.Operations" and "GetOperation" not in names:
                names.append("GetOperation")
            rng.shuffle(names)
            for n in names:
                r = {"selector": f"{api}.{n}"}
                r.update(rules[n])
                if rng.random() < 0.35:
                    verb = next(k for k in r if k in ("get", "post", "delete"))
                    ab = {verb: r[verb].replace("/v1/", "/v1beta1/")}
                    if "body" in r:
                        ab["body"] = r["body"]
                    r["additional_bindings"] = [ab]
                    if rng.random() < 0.4:
                        ab2 = {verb: r[verb].replace("projects/*", "organizations/*")}
                        if "body" in r:
                            ab2["body"] = r["body"]
                        r["additional_bindings"].append(ab2)
                y["http"]["rules"].append(r)
    # naming coincidence: the API defines its OWN rpc with the short name of an un-ruled mixin method, and the
    # YAML carries an http rule for that own method (legal: YAML rules may override any selector)
    if rng.random() < 0.3:
        listed = {a["name"] for a in y["apis"]}
        ruled = {r["selector"] for r in y["http"]["rules"]}
        cands = [(api, n) for api, rules in MIXIN_RULES.items() if api in listed and api != "google.iam.v1.IAMPolicy"
                 for n in rules if f"{api}.{n}" not in ruled]
        svcs = [(fs, s) for fs in spec["files"] for s in fs.get("services", ())]
        if cands and svcs:
            api, n = rng.choice(cands)
            fs, s = svcs[0]
            if all(m["name"] != n for m in s["methods"]) and not any(mm["name"] == f"{n}Request" for mm in fs["messages"]):
                P = "." + fs["package"]
                fs["messages"].append({"name": f"{n}Request", "fields": [{"name": "name", "number": 1, "type": "string"}]})
                out = next(("." + f2["package"] + "." + mm["name"] for f2 in spec["files"] for mm in f2["messages"] if mm.get("resource")), None)
                s["methods"].append({"name": n, "input": f"{P}.{n}Request", "output": out,
                                     "http": {"verb": "get", "path": "/v1/{name=own/*}"}, "own_mixin_name": True})
                y["http"]["rules"].append({"selector": f"{fs['package']}.{s['name']}.{n}", "get": "/v1/{name=own/*}:viaYaml"})
    # the YAML of a real API lists the API's OWN services under `apis` too
    own = [(fs, s) for fs in spec["files"] for s in fs.get("services", ())]
    if rng.random() < 0.6:
        if rng.random() < 0.35 and own:
            # naming coincidence: an own service whose SHORT name is that of a mixin API (acme.x.v1.Operations); only the
            # fully-qualified google.* names switch a mixin on
            fs, s = own[-1]
            short = rng.choice(["Operations", "Locations"])      # (IAMPolicy: the harness's own snake-casing of acronyms differs)
            if all(s2["name"] != short for _, s2 in own):
                old_name = s["name"]
                s["name"] = short
                for coll in (spec.get("service_config") or {}).get("methodConfig", []):
                    for nm in coll.get("name", []):
                        if nm.get("service") == fs["package"] + "." + old_name:
                            nm["service"] = fs["package"] + "." + short
                for r in y["http"]["rules"]:
                    if r["selector"].startswith(fs["package"] + "." + old_name + "."):
                        r["selector"] = fs["package"] + "." + short + "." + r["selector"].rsplit(".", 1)[1]
        for fs, s in own:
            y["apis"].insert(rng.randrange(len(y["apis"]) + 1), {"name": fs["package"] + "." + s["name"]})
    rng.shuffle(y["http"]["rules"])
    if not y["apis"]:
        del y["apis"]
    if not y["http"]["rules"]:
        del y["http"]
    return y


def gen_service_yaml(cx, spec, host, need_ops):
    rng = cx.rng
    if cx.p.get("mixin_variants"):
        return gen_mixin_yaml(cx, spec, host, need_ops)
    y = {"type": "google.api.Service", "config_version": 3, "name": host, "apis": [], "http": {"rules": []}}
    if need_ops or rng.random() < 0.3:
        y["apis"].append({"name": "google.longrunning.Operations"})
        rule = {"selector": "google.longrunning.Operations.GetOperation", "get": "/v1/{name=projects/*/operations/*}"}
        if rng.random() < 0.4:
            rule["additional_bindings"] = [{"get": "/v1/{name=organizations/*/operations/*}"}]
            if rng.random() < 0.5:
                rule["additional_bindings"].append({"get": "/v1beta1/{name=folders/*/operations/*}"})
        y["http"]["rules"].append(rule)
        if rng.random() < 0.6:
            y["http"]["rules"].append({"selector": "google.longrunning.Operations.CancelOperation",
                                       "post": "/v1/{name=projects/*/operations/*}:cancel", "body": "*"})
        if rng.random() < 0.5:
            y["http"]["rules"].append({"selector": "google.longrunning.Operations.ListOperations",
                                       "get": "/v1/{name=projects/*}/operations"})
        if rng.random() < 0.4:
            y["http"]["rules"].append({"selector": "google.longrunning.Operations.DeleteOperation",
                                       "delete": "/v1/{name=projects/*/operations/*}"})
    if cx.auto or rng.random() < 0.2:
        ms = []
        for svc, meth, names in cx.auto:
            ms.append({"selector": f"{svc}.{meth}", "auto_populated_fields": list(names)})
        # other entries without auto-populated fields (legal; e.g. long_running settings)
        others = [(fs["package"] + "." + s["name"], m["name"]) for fs, s, m in all_methods(spec)
                  if (fs["package"] + "." + s["name"], m["name"]) not in {(a, b) for a, b, _ in cx.auto}]
        rng.shuffle(others)
        for svc, meth in others[:rng.randint(0, 2)]:
            ms.append({"selector": f"{svc}.{meth}"})
        rng.shuffle(ms)
        if ms:
            y["publishing"] = {"method_settings": ms}
    if not y["apis"]:
        del y["apis"]
    if not y["http"]["rules"]:
        del y["http"]
    return y


def all_methods(spec):
    for fs in spec["files"]:
        for s in fs.get("services", ()):
            for m in s["methods"]:
                yield fs, s, m


def method_kind(m):
    if m.get("client_streaming") and m.get("server_streaming"):
        return "bidi"
    if m.get("client_streaming"):
        return "cstream"
    if m.get("server_streaming"):
        return "sstream"
    return "unary"


def clone(spec):
    return copy.deepcopy(spec)


def gen_extended_ops_api(rng):
    """Compute-style (REST only) API using google.cloud extended operations: 1-3 operation services
    and resource services whose RPCs are tracked by one or two DIFFERENT operation services."""
    name = rng.choice(["compute", "fleet"])
    pkg = f"acme.{name}.v1"
    P = "." + pkg
    host = f"{name}.example.com"
    scopes = rng.sample(["zone", "region", "global"], rng.choice([1, 2, 2, 3, 3]))
    f = {"name": f"acme/{name}/v1/{name}.proto", "package": pkg, "messages": [], "enums": [], "services": []}
    f["messages"].append({"name": "Operation", "enums": [{"name": "Status", "values": [["UNDEFINED_STATUS", 0], ["PENDING", 1], ["RUNNING", 2], ["DONE", 3]]}],
                          "fields": [{"name": "name", "number": 1, "type": "string", "operation_field": "NAME"},
                                     {"name": "status", "number": 2, "type": "enum", "type_name": P + ".Operation.Status", "operation_field": "STATUS"},
                                     {"name": "http_error_status_code", "number": 3, "type": "int32", "operation_field": "ERROR_CODE"},
                                     {"name": "http_error_message", "number": 4, "type": "string", "operation_field": "ERROR_MESSAGE"}]})
    for sc in scopes:
        cap = sc.capitalize()
        fields = [{"name": "operation", "number": 1, "type": "string", "required": True, "operation_response_field": "name"},
                  {"name": "project", "number": 2, "type": "string", "required": True}]
        path = "/compute/v1/projects/{project}"
        if sc != "global":
            fields.append({"name": sc, "number": 3, "type": "string", "required": True})
            path += "/" + sc + "s/{" + sc + "}"
        f["messages"].append({"name": f"Get{cap}OperationRequest", "fields": fields})
        f["services"].append({"name": f"{cap}Operations", "host": host, "scopes": ["https://www.googleapis.com/auth/cloud-platform"],
                              "methods": [{"name": "Get", "input": f"{P}.Get{cap}OperationRequest", "output": P + ".Operation",
                                           "http": {"verb": "get", "path": path + "/operations/{operation}"},
                                           "operation_polling_method": True}]})
    for noun in rng.sample(["Disk", "Address", "Image"], rng.randint(1, 2)):
        svc = {"name": noun + "s", "host": host, "scopes": ["https://www.googleapis.com/auth/cloud-platform"], "methods": []}
        verbs = rng.sample(["Resize", "Replicate", "Snapshot", "Insert"], rng.randint(1, 3))
        for verb in verbs:
            sc = rng.choice(scopes)
            cap = sc.capitalize()
            fields = [{"name": noun.lower(), "number": 1, "type": "string", "required": True},
                      {"name": "project", "number": 2, "type": "string", "required": True, "operation_request_field": "project"}]
            path = "/compute/v1/projects/{project}"
            if sc != "global":
                fields.append({"name": sc, "number": 3, "type": "string", "required": True, "operation_request_field": sc})
                path += "/" + sc + "s/{" + sc + "}"
            fields.append({"name": "size_gb", "number": 4, "type": "int32"})
            mn = f"{verb}{noun}{cap if len(scopes) > 1 else ''}"
            f["messages"].append({"name": f"{mn}Request", "fields": fields})
            svc["methods"].append({"name": mn, "input": f"{P}.{mn}Request", "output": P + ".Operation",
                                   "http": {"verb": "post", "path": path + "/" + noun.lower() + "s/{" + noun.lower() + "}/" + verb.lower()},
                                   "operation_service": f"{cap}Operations"})
        f["services"].append(svc)
    return {"package": pkg, "files": [f], "options": {"transport": "rest", "autogen-snippets": False}}
