"""Simulated gRPC channels (sync and asyncio) and the history they record.

The channels are the only transport the emitted library sees.  They subclass the grpc ABCs
because api-core dispatches on them (wrap_errors) and grpc.intercept_channel calls
``with_call`` on unary callables.  All behaviour comes from ``sim.server(call) -> outcome``:

  outcome = {"lat": seconds before the reply (or error) is delivered,
             "code": None | "UNAVAILABLE" | ...,        # error instead of reply
             "reply": bytes,                             # unary reply
             "items": [bytes, ...], "item_lat": [..],    # streamed replies
             "cut": None | {"after": k, "code": name}}   # stream error after k items
If the per-attempt timeout is smaller than ``lat`` the attempt ends after ``timeout`` seconds with
DEADLINE_EXCEEDED, as a real channel would.
"""
import asyncio
import json

import grpc
from google.protobuf import json_format
from grpc import aio

from .simclock import CLOCK, EPOCH, CURRENT_OP


class SimRunaway(BaseException):
    """The simulated client exceeded every modelled bound (attempts per op / history length).
    Derives from BaseException so that retry loops in the code under test cannot swallow it."""


class Sim:
    max_attempts_per_op = 400

    def __init__(self, server):
        self.server = server
        self.history = []
        self.max_events = 10_000
        self.attempt_no = {}
        self.numeric_enums = False
        self.json_pool = None

    def ev(self, k_, **kw):
        if len(self.history) >= self.max_events:
            raise SimRunaway("history cap reached")
        e = {"seq": len(self.history), "t": round(CLOCK.now - EPOCH, 6), "k": k_}
        e.update(kw)
        self.history.append(e)
        return e

    def attempt(self, path, arity, reqs, metadata, timeout, channel_id, transport="grpc", extra=None):
        op = CURRENT_OP.get()
        n = self.attempt_no.get(op, 0) + 1
        self.attempt_no[op] = n
        if n > self.max_attempts_per_op:
            raise SimRunaway(f"op {op}: more than {self.max_attempts_per_op} attempts")
        md = []
        for k, v in (metadata or ()):
            md.append([k, v.hex() if isinstance(v, bytes) else v])
        call = {"op": op, "n": n, "path": path, "arity": arity, "reqs": [r.hex() for r in reqs],
                "md": md, "timeout": timeout, "ch": channel_id, "tr": transport}
        if extra:
            call.update(extra)
        self.ev("attempt", **call)
        out = dict(self.server(call))
        # servers answer with dynamic messages; the transport flavour decides the encoding
        if "msg" in out:
            msg = out.pop("msg")
            out["reply"] = msg.SerializeToString(deterministic=True)
            if transport == "rest":
                out["json"] = json_format.MessageToJson(msg, use_integers_for_enums=self.numeric_enums,
                                                        descriptor_pool=self.json_pool)
        if "msgs" in out:
            msgs = out.pop("msgs")
            out["items"] = [x.SerializeToString(deterministic=True) for x in msgs]
            if transport == "rest":
                cut = out.get("cut")
                arr = msgs[:cut["after"]] if cut else msgs
                out["json"] = json.dumps([json.loads(json_format.MessageToJson(x, use_integers_for_enums=self.numeric_enums,
                                                                               descriptor_pool=self.json_pool))
                                          for x in arr], ensure_ascii=False)
        self.ev("server", op=op, n=n, lat=out.get("lat", 0.0), code=out.get("code"),
                reply=(out["reply"].hex() if out.get("reply") is not None else None),
                items=[i.hex() for i in out.get("items", [])] if "items" in out else None,
                cut=out.get("cut"), **({"lost_body": True} if out.get("lost_body") else {}))
        out["_op"], out["_n"] = op, n
        return out

    def end(self, out, status):
        self.ev("attempt_end", op=out.get("_op"), n=out.get("_n"), status=status)


def _code(name):
    return getattr(grpc.StatusCode, name)


class SimRpcError(grpc.RpcError, grpc.Call, grpc.Future):
    """Like grpc's _InactiveRpcError: an error that is also the terminated call."""

    def __init__(self, code, details="injected by simulator"):
        super().__init__(code, details)
        self._code, self._details = code, details

    def code(self): return self._code
    def details(self): return self._details
    def initial_metadata(self): return ()
    def trailing_metadata(self): return ()
    def result(self, timeout=None): raise self
    def exception(self, timeout=None): return self
    def traceback(self, timeout=None): return None
    def cancel(self): return False
    def cancelled(self): return False
    def running(self): return False
    def done(self): return True
    def add_done_callback(self, fn): fn(self)
    def is_active(self): return False
    def time_remaining(self): return None
    def add_callback(self, cb): return False
    def debug_error_string(self): return ""


class _OkCall(grpc.Call):
    def code(self): return grpc.StatusCode.OK
    def details(self): return ""
    def initial_metadata(self): return ()
    def trailing_metadata(self): return ()
    def is_active(self): return False
    def time_remaining(self): return None
    def cancel(self): return False
    def add_callback(self, cb): return False


def _ident(x):
    return x


class _MC:
    def __init__(self, ch, path, ser, de):
        # grpc semantics: a missing (de)serializer means raw bytes pass through
        self.ch, self.path, self.ser, self.de = ch, path, ser or _ident, de or _ident
        self.sim = ch.sim


def _sync_deliver(sim, out, timeout):
    lat = float(out.get("lat", 0.0))
    if timeout is not None and lat > timeout:
        CLOCK.advance(timeout)
        sim.end(out, "DEADLINE_FIRED")
        raise SimRpcError(grpc.StatusCode.DEADLINE_EXCEEDED, "Deadline Exceeded")
    CLOCK.advance(lat)
    if out.get("code"):
        sim.end(out, out["code"])
        raise SimRpcError(_code(out["code"]))
    sim.end(out, "OK")


class _SyncUU(_MC, grpc.UnaryUnaryMultiCallable):
    def with_call(self, request, timeout=None, metadata=None, credentials=None,
                  wait_for_ready=None, compression=None):
        data = self.ser(request)
        out = self.sim.attempt(self.path, "uu", [data], metadata, timeout, self.ch.cid)
        _sync_deliver(self.sim, out, timeout)
        too_big = _check_size(self.ch, out)
        if too_big:
            raise SimRpcError(grpc.StatusCode.RESOURCE_EXHAUSTED, too_big)
        return self.de(out["reply"]), _OkCall()

    def __call__(self, request, timeout=None, metadata=None, credentials=None,
                 wait_for_ready=None, compression=None):
        return self.with_call(request, timeout, metadata, credentials, wait_for_ready, compression)[0]

    def future(self, *a, **k):
        raise NotImplementedError("simulated channel: future() is not used by emitted code")


class _SyncStream(_OkCall):
    """Iterator of replies that is also the grpc.Call (as grpc's _MultiThreadedRendezvous is).  As with a real
    channel, invoking a response-streaming multi-callable never fails: a failure before the first reply (status
    or deadline) is delivered by the FIRST read."""

    def __init__(self, sim, de, out, timeout=None):
        self.sim, self.de, self.out = sim, de, out
        self.i = 0
        self.op = CURRENT_OP.get()
        self.timeout = timeout
        self.started = False

    def __iter__(self):
        return self

    def __next__(self):
        if not self.started:
            self.started = True
            _sync_deliver(self.sim, self.out, self.timeout)       # raises the stream-start error, if any
        items = self.out.get("items", [])
        cut = self.out.get("cut")
        lats = self.out.get("item_lat") or []
        if cut is not None and self.i >= cut["after"]:
            raise SimRpcError(_code(cut["code"]))
        if self.i >= len(items):
            raise StopIteration
        CLOCK.advance(lats[self.i] if self.i < len(lats) else 0.0)
        v = self.de(items[self.i])
        self.i += 1
        return v


class _SyncUS(_MC, grpc.UnaryStreamMultiCallable):
    def __call__(self, request, timeout=None, metadata=None, credentials=None,
                 wait_for_ready=None, compression=None):
        data = self.ser(request)
        out = self.sim.attempt(self.path, "us", [data], metadata, timeout, self.ch.cid)
        return _SyncStream(self.sim, self.de, out, timeout)


class _SyncSU(_MC, grpc.StreamUnaryMultiCallable):
    def with_call(self, request_iterator, timeout=None, metadata=None, credentials=None,
                  wait_for_ready=None, compression=None):
        reqs = [self.ser(r) for r in request_iterator]
        out = self.sim.attempt(self.path, "su", reqs, metadata, timeout, self.ch.cid)
        _sync_deliver(self.sim, out, timeout)
        return self.de(out["reply"]), _OkCall()

    def __call__(self, request_iterator, timeout=None, metadata=None, credentials=None,
                 wait_for_ready=None, compression=None):
        return self.with_call(request_iterator, timeout, metadata)[0]

    def future(self, *a, **k):
        raise NotImplementedError


class _SyncSS(_MC, grpc.StreamStreamMultiCallable):
    def __call__(self, request_iterator, timeout=None, metadata=None, credentials=None,
                 wait_for_ready=None, compression=None):
        reqs = [self.ser(r) for r in request_iterator]
        out = self.sim.attempt(self.path, "ss", reqs, metadata, timeout, self.ch.cid)
        return _SyncStream(self.sim, self.de, out, timeout)


GRPC_DEFAULT_MAX_RECEIVE = 4 * 1024 * 1024


def _max_recv(options):
    """What a real channel built with these channel args would accept per message (None = the channel was handed to the
    transport ready-made: its limits are the application's business)."""
    if options is None:
        return None
    for k, v in options:
        if k == "grpc.max_receive_message_length":
            return None if v == -1 else int(v)
    return GRPC_DEFAULT_MAX_RECEIVE       # gRPC ignores unknown channel args silently: the built-in 4 MiB cap applies


def _check_size(ch, out):
    lim = getattr(ch, "max_recv", None)
    if lim is not None and out.get("reply") is not None and len(out["reply"]) > lim:
        return f"Received message larger than max ({len(out['reply'])} vs. {lim})"
    return None


class SimChannel(grpc.Channel):
    _next = 0

    def __init__(self, sim, cid=None, options=None):
        self.max_recv = _max_recv(options)
        self.sim = sim
        if cid is None:
            SimChannel._next += 1
            cid = f"ch{SimChannel._next}"
        self.cid = cid
        self.created = []

    def _mk(self, cls, arity, method, ser, de):
        self.created.append((arity, method))
        return cls(self, method, ser, de)

    def unary_unary(self, method, request_serializer=None, response_deserializer=None, _registered_method=False):
        return self._mk(_SyncUU, "uu", method, request_serializer, response_deserializer)

    def unary_stream(self, method, request_serializer=None, response_deserializer=None, _registered_method=False):
        return self._mk(_SyncUS, "us", method, request_serializer, response_deserializer)

    def stream_unary(self, method, request_serializer=None, response_deserializer=None, _registered_method=False):
        return self._mk(_SyncSU, "su", method, request_serializer, response_deserializer)

    def stream_stream(self, method, request_serializer=None, response_deserializer=None, _registered_method=False):
        return self._mk(_SyncSS, "ss", method, request_serializer, response_deserializer)

    def subscribe(self, callback, try_to_connect=False): pass
    def unsubscribe(self, callback): pass
    def close(self): self.sim.ev("channel_close", ch=self.cid)
    def __enter__(self): return self
    def __exit__(self, *a): return False


# ---------------------------------------------------------------- asyncio flavour

class SimAioRpcError(grpc.RpcError):
    def __init__(self, code, details="injected by simulator"):
        super().__init__(code, details)
        self._code, self._details = code, details

    def code(self): return self._code
    def details(self): return self._details
    def initial_metadata(self): return ()
    def trailing_metadata(self): return ()
    def debug_error_string(self): return ""


class _AioCallBase:
    _task = None

    async def initial_metadata(self): return ()
    async def trailing_metadata(self): return ()
    async def code(self): return grpc.StatusCode.OK
    async def details(self): return ""
    def cancelled(self): return bool(self._task and self._task.cancelled())
    def done(self): return bool(self._task and self._task.done())
    def time_remaining(self): return None
    def cancel(self): return self._task.cancel() if self._task else False
    def add_done_callback(self, cb):
        if self._task:
            self._task.add_done_callback(lambda t: cb(self))
    async def wait_for_connection(self): pass


async def _aio_deliver(sim, out, timeout):
    lat = float(out.get("lat", 0.0))
    if timeout is not None and lat > timeout:
        await asyncio.sleep(timeout)
        sim.end(out, "DEADLINE_FIRED")
        raise SimAioRpcError(grpc.StatusCode.DEADLINE_EXCEEDED, "Deadline Exceeded")
    if lat > 0:
        await asyncio.sleep(lat)
    if out.get("code"):
        sim.end(out, out["code"])
        raise SimAioRpcError(_code(out["code"]))
    sim.end(out, "OK")


_task_seq = [0]


def _name(prefix):
    _task_seq[0] += 1
    return f"{prefix}-{_task_seq[0]}"


class _AioUUCall(_AioCallBase, aio.UnaryUnaryCall):
    def __init__(self, coro):
        self._task = asyncio.get_event_loop().create_task(coro, name=_name("uu"))

    def __await__(self):
        return self._task.__await__()


class _AioUU(_MC, aio.UnaryUnaryMultiCallable):
    def __call__(self, request, *, timeout=None, metadata=None, credentials=None,
                 wait_for_ready=None, compression=None):
        data = self.ser(request)
        out = self.sim.attempt(self.path, "uu", [data], metadata, timeout, self.ch.cid)

        async def run():
            await _aio_deliver(self.sim, out, timeout)
            too_big = _check_size(self.ch, out)
            if too_big:
                raise SimAioRpcError(grpc.StatusCode.RESOURCE_EXHAUSTED, too_big)
            return self.de(out["reply"])
        return _AioUUCall(run())


class _AioStreamCall(_AioCallBase):
    def _init_stream(self, sim, de, out, timeout, pre=None):
        self.sim, self.de, self.out, self.timeout = sim, de, out, timeout
        self.i = 0
        self.started = False
        self.pre = pre

    def __aiter__(self):
        return self

    async def __anext__(self):
        v = await self.read()
        if v is aio.EOF:
            raise StopAsyncIteration
        return v

    async def read(self):
        if not self.started:
            self.started = True
            if self.pre is not None:
                await self.pre()
            await _aio_deliver(self.sim, self.out, self.timeout)
        items = self.out.get("items", [])
        cut = self.out.get("cut")
        lats = self.out.get("item_lat") or []
        if cut is not None and self.i >= cut["after"]:
            raise SimAioRpcError(_code(cut["code"]))
        if self.i >= len(items):
            return aio.EOF
        d = lats[self.i] if self.i < len(lats) else 0.0
        if d > 0:
            await asyncio.sleep(d)
        v = self.de(items[self.i])
        self.i += 1
        return v


class _AioUSCall(_AioStreamCall, aio.UnaryStreamCall):
    pass


class _AioUS(_MC, aio.UnaryStreamMultiCallable):
    def __call__(self, request, *, timeout=None, metadata=None, credentials=None,
                 wait_for_ready=None, compression=None):
        data = self.ser(request)
        out = self.sim.attempt(self.path, "us", [data], metadata, timeout, self.ch.cid)
        c = _AioUSCall()
        c._init_stream(self.sim, self.de, out, timeout)
        return c


async def _collect(request_iterator, ser):
    reqs = []
    if request_iterator is None:
        return reqs
    if hasattr(request_iterator, "__aiter__"):
        async for r in request_iterator:
            reqs.append(ser(r))
    else:
        for r in request_iterator:
            reqs.append(ser(r))
    return reqs


class _AioSUCall(_AioCallBase, aio.StreamUnaryCall):
    def __init__(self, coro, sim=None, op=None, path=None):
        self._task = asyncio.get_event_loop().create_task(coro, name=_name("su"))
        self._sim, self._op, self._path = sim, op, path

    def __await__(self):
        return self._task.__await__()

    def __del__(self):
        # grpc.aio cancels an RPC whose call object is garbage-collected before it is done (Call.__del__): a caller -
        # or an emitted method - that drops the call of a stream-unary RPC without awaiting it aborts that RPC
        t = self._task
        if t is not None and not t.done():
            t.cancel()
            if self._sim is not None:
                self._sim.ev("call_dropped", op=self._op, path=self._path)

    async def write(self, request): raise NotImplementedError
    async def done_writing(self): pass


class _AioSU(_MC, aio.StreamUnaryMultiCallable):
    def __call__(self, request_iterator=None, timeout=None, metadata=None, credentials=None,
                 wait_for_ready=None, compression=None):
        op = CURRENT_OP.get()

        async def run():
            reqs = await _collect(request_iterator, self.ser)
            out = self.sim.attempt(self.path, "su", reqs, metadata, timeout, self.ch.cid)
            await _aio_deliver(self.sim, out, timeout)
            return self.de(out["reply"])
        return _AioSUCall(run(), self.sim, op, self.path)


class _AioSSCall(_AioStreamCall, aio.StreamStreamCall):
    async def write(self, request): raise NotImplementedError
    async def done_writing(self): pass


class _AioSS(_MC, aio.StreamStreamMultiCallable):
    def __call__(self, request_iterator=None, timeout=None, metadata=None, credentials=None,
                 wait_for_ready=None, compression=None):
        c = _AioSSCall()
        holder = {}

        async def pre():
            reqs = await _collect(request_iterator, self.ser)
            holder["out"] = self.sim.attempt(self.path, "ss", reqs, metadata, timeout, self.ch.cid)
            c.out = holder["out"]
        c._init_stream(self.sim, self.de, {}, timeout, pre=pre)
        return c


class SimAioChannel(aio.Channel):
    def __init__(self, sim, cid=None, options=None):
        self.max_recv = _max_recv(options)
        self.sim = sim
        if cid is None:
            SimChannel._next += 1
            cid = f"ch{SimChannel._next}"
        self.cid = cid
        self.created = []
        self._unary_unary_interceptors = []

    def _mk(self, cls, arity, method, ser, de):
        self.created.append((arity, method))
        return cls(self, method, ser, de)

    def unary_unary(self, method, request_serializer=None, response_deserializer=None, _registered_method=False):
        return self._mk(_AioUU, "uu", method, request_serializer, response_deserializer)

    def unary_stream(self, method, request_serializer=None, response_deserializer=None, _registered_method=False):
        return self._mk(_AioUS, "us", method, request_serializer, response_deserializer)

    def stream_unary(self, method, request_serializer=None, response_deserializer=None, _registered_method=False):
        return self._mk(_AioSU, "su", method, request_serializer, response_deserializer)

    def stream_stream(self, method, request_serializer=None, response_deserializer=None, _registered_method=False):
        return self._mk(_AioSS, "ss", method, request_serializer, response_deserializer)

    async def close(self, grace=None): self.sim.ev("channel_close", ch=self.cid)
    def get_state(self, try_to_connect=False): return grpc.ChannelConnectivity.READY
    async def wait_for_state_change(self, last_observed_state): pass
    async def channel_ready(self): pass
    async def __aenter__(self): return self
    async def __aexit__(self, *a): return False
