#!/venv/bin/python
"""Entry point of every check:  check.py <PROPERTY-ID> [--tier quick|thorough] [--replay FILE]

Re-executes itself under PYTHONHASHSEED=0 (sim workers must not depend on the ambient hash
seed; C10 sets its own seeds for the generator processes it launches)."""
import os
import sys

HERE = os.path.dirname(os.path.abspath(__file__))
if os.environ.get("PYTHONHASHSEED") is None:
    os.environ["PYTHONHASHSEED"] = "0"
    os.execv(sys.executable, [sys.executable] + sys.argv)
sys.path.insert(0, HERE)
os.environ.setdefault("GRPC_ENABLE_FORK_SUPPORT", "0")


def main():
    if len(sys.argv) < 2:
        print(__doc__)
        return 2
    prop = sys.argv[1].upper()
    if prop == "C10":
        from dsim import c10
        return c10.main(sys.argv[2:])
    if prop == "SELFTEST":
        from dsim import selftest
        return selftest.main(sys.argv[2:])
    from dsim import driver
    return driver.main(prop, sys.argv[2:])


if __name__ == "__main__":
    try:
        rc = main()
    except SystemExit:
        raise
    except BaseException:  # noqa  -- a harness crash is exit 2, never 0 or 1
        import traceback
        traceback.print_exc()
        rc = 2
    sys.stdout.flush()
    sys.exit(rc)
