"""Run the checks against seeded changes WITHOUT touching /repo: each change is applied in its own scratch git worktree
of /repo (at /repo's HEAD), the checks import the generator from there (PYTHONPATH), the worktree is removed afterwards.

usage: run_seeded.py [--checks C07,C09] [--jobs N] [ids...]   -> one detection-matrix line per seeded change
"""
import json
import os
import subprocess
import sys
from concurrent.futures import ThreadPoolExecutor

VERIF = os.path.dirname(os.path.dirname(os.path.abspath(__file__)))
WT_ROOT = "/tmp/wt"


def sh(cmd, **kw):
    return subprocess.run(cmd, shell=True, capture_output=True, text=True, **kw)


def one(sid, checks, built):
    meta = json.load(open(os.path.join(VERIF, "seeded", sid, "meta.json")))
    todo = checks or [meta["property"]] + meta.get("also_checked_by", [])
    todo = [c for c in todo if c in built]
    patch = os.path.join(VERIF, "seeded", sid, "patch.diff")
    wt = os.path.join(WT_ROOT, f"rs-{sid}-{os.getpid()}")
    os.makedirs(WT_ROOT, exist_ok=True)
    r = sh(f"git -C /repo worktree add -q --detach {wt} HEAD")
    if r.returncode != 0:
        return f"{sid}: cannot create worktree: {r.stderr.strip()[:200]}"
    try:
        r = sh(f"git -C {wt} apply {patch}")
        if r.returncode != 0:
            r = sh(f"git -C {wt} apply -3 {patch}")
            unmerged = sh(f"git -C {wt} diff --name-only --diff-filter=U").stdout.strip()
            if r.returncode != 0 or unmerged:
                return f"{sid} ({meta['property']}): PATCH DOES NOT APPLY at /repo HEAD ({(r.stderr.strip() or unmerged)[:160]})"
        env = dict(os.environ, PYTHONPATH=wt)
        res = {}
        for c in todo:
            p = sh(f"timeout 1500 /venv/bin/python check.py {c} --tier quick --no-selftest --no-evidence", cwd=VERIF, env=env)
            lines = [l for l in p.stdout.splitlines() if l.startswith(("VIOLATION", "  rule=", "HARNESS"))]
            res[c] = (p.returncode, " | ".join(lines)[:400])
        return f"{sid} ({meta['property']}): " + "; ".join(f"{c}: exit={rc} {txt}" for c, (rc, txt) in res.items())
    finally:
        sh(f"git -C /repo worktree remove --force {wt}")


def main():
    args = sys.argv[1:]
    checks, jobs = None, 1
    while args and args[0].startswith("--"):
        if args[0] == "--checks":
            checks = args[1].split(",")
        elif args[0] == "--jobs":
            jobs = int(args[1])
        args = args[2:]
    ids = args or sorted(d for d in os.listdir(os.path.join(VERIF, "seeded")) if os.path.isdir(os.path.join(VERIF, "seeded", d)))
    built = json.load(open(os.path.join(VERIF, "tools", "built.json")))
    with ThreadPoolExecutor(jobs) as ex:
        for line in ex.map(lambda s: one(s, checks, built), ids):
            print(line, flush=True)


main()
