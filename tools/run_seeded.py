"""Apply each seeded change to /repo, run the named checks (quick tier, no self-test), undo.
usage: run_seeded.py [--checks C07,C09] [ids...]   -> prints a detection matrix line per mutant."""
import json, os, subprocess, sys
VERIF = os.path.dirname(os.path.dirname(os.path.abspath(__file__)))
def sh(cmd, **kw):
    return subprocess.run(cmd, shell=True, capture_output=True, text=True, **kw)
def main():
    args = sys.argv[1:]
    checks = None
    if args and args[0] == "--checks":
        checks = args[1].split(","); args = args[2:]
    ids = args or sorted(os.listdir(os.path.join(VERIF, "seeded")))
    built = json.load(open(os.path.join(VERIF, "tools", "built.json")))
    assert sh("git -C /repo status --porcelain").stdout.strip() == "", "/repo not clean"
    for sid in ids:
        meta = json.load(open(os.path.join(VERIF, "seeded", sid, "meta.json")))
        todo = checks or [meta["property"]] + meta.get("also_checked_by", [])
        todo = [c for c in todo if c in built]
        patch = os.path.join(VERIF, "seeded", sid, "patch.diff")
        r = sh(f"git -C /repo apply {patch}")
        if r.returncode != 0:
            r = sh(f"git -C /repo apply -3 {patch}")
        if r.returncode != 0:
            print(f"{sid}: PATCH DOES NOT APPLY: {r.stderr.strip()[:200]}"); sh("git -C /repo checkout -- ."); continue
        try:
            res = {}
            for c in todo:
                p = sh(f"timeout 900 /venv/bin/python check.py {c} --tier quick --no-selftest --no-evidence", cwd=VERIF)
                lines = [l for l in p.stdout.splitlines() if l.startswith(("VIOLATION", "  rule=", "HARNESS", "KNOWN"))]
                res[c] = (p.returncode, " | ".join(lines)[:400])
            print(f"{sid} ({meta['property']}): " + "; ".join(f"{c}: exit={rc} {txt}" for c, (rc, txt) in res.items()), flush=True)
        finally:
            sh("git -C /repo checkout -- .")
            sh("git -C /repo clean -fdq gapic")
main()
