"""Regenerates /verif/MANIFEST.json from the table below (kept valid at all times)."""
import json, os
HERE = os.path.dirname(os.path.dirname(os.path.abspath(__file__)))
BUILT = json.load(open(os.path.join(HERE, "tools", "built.json")))
NA = {
 "C01": "parse + import of the emitted tree is a pure function of (descriptors, options): no peer, clock, fault or schedule can change the verdict; generate-and-import over random inputs is property-based testing, not simulation.",
 "C02": "descriptor equality and a serialise/parse round trip are pure functions of the input schema and a field valuation (translation validation); nothing for a scheduler or fault injector to decide.",
 "C11": "the set of response file names is a pure function of the request; no run-time behaviour at all.",
 "C12": "a finite word x position cross-product that the property asks to enumerate exhaustively; exhaustive enumeration is not seeded schedule search, and sampling it would be weaker than what the property demands.",
 "C13": "'the emitted pytest suite passes' is decided by running that suite (which brings its own mocks); there is no simulated peer and no nondeterminism the simulator could own.",
 "C14": "region tags, metadata, line ranges and docstring embedding are static cross-artefact consistency; 'runs to completion against an accepting server' is one fault-free execution per RPC whose outcome no schedule or fault can change.",
 "C15": "consistency between a JSON artefact, a script table and the emitted class names: static, a pure function of the input.",
 "C16": "closure of a type graph under a method subset plus a differential against the full library: a pure function of (descriptors, settings).",
 "C19": "*_path / parse_*_path are pure string functions; round-trip laws over strings are property-based testing, not simulation.",
 "C20": "wrap, rst and fix_whitespace are pure text functions with no schedule, clock, fault or interleaving.",
}
CLAIMS = {
 "C09": dict(sec="4 C09", text="Seeded search over (service config, method, call options, status-code fault script, latency script, jitter script) on a virtual clock, for sync gRPC, asyncio gRPC and REST clients, over unary calls, every page fetch of pagers, initial calls of long-running methods and first attempts of server streams; every recorded history is walked by an executable retry/deadline reference model read straight from the service-config JSON. Exploration: a clean batch is evidence, not proof; the property quantifies over fault sequences, which is exactly what the simulator samples.",
             note="Trusted: google-api-core's retry/timeout algorithm as the semantics of a configured policy; the simulated channels (SimChannel/SimAioChannel) faithfully deliver status codes and deadlines; service configs are drawn from a conventional grammar (DESIGN.md section 3 exclusions).",
             tech="deterministic simulation: virtual clock + scripted status-code/latency/jitter faults, reference retry model as oracle"),
 "C07": dict(sec="4 C07", text="Seeded search over server page histories (1..5 pages of 0..3 items, up to 8 in the thorough tier, empty middle pages), faults between pages, concurrent asyncio pagers, cancellation, request-object reuse, a second walk of the same pager and replies of a newer server (unknown JSON fields), on sync gRPC, asyncio gRPC and REST pagers; every history is checked against a sequential pager model (exactly-once, in-order, token threading, unchanged call options). Exploration level.",
             note="Trusted: simulated channels; AIP-4233 classification is computed by the oracle from the input descriptors; conventional grammar (excluded corners in DESIGN.md section 3).",
             tech="deterministic simulation: scripted page histories + faults/cancellation, sequential pager model as oracle"),
 "C08": dict(sec="4 C08", text="Seeded search over operation histories (not-done^k then done with response|error) with poll faults and latencies on a virtual clock, for sync, asyncio and REST clients; typed-future model checks polling target, result/metadata types and values, error mapping and bounded liveness after done. Exploration level.",
             note="Trusted: api-core's operation futures/polling; simulated channels and HTTP adapter; operation_info name resolution is recomputed by the oracle from the spec.",
             tech="deterministic simulation: scripted GetOperation histories on a virtual clock, typed-future reference model"),
 "C10": dict(sec="4 C10", text="The ambient nondeterminism a build farm presents (PYTHONHASHSEED, process instance and reuse, cwd, environment, fake wall clock, stdin vs --request) is put behind a launcher that draws every environment from the seed; the oracle is byte equality of the CodeGeneratorResponse across environments. Exploration level: a 2-way order tie flips with probability 1/2 per hash seed.",
             note="Trusted: the launcher's environment control (separate interpreter per environment); pandoc stub; requests from the order-stress grammar profile.",
             tech="deterministic simulation of ambient nondeterminism: seeded process/hash-seed/cwd/env/clock schedule, byte-equality oracle"),
 "C18": dict(sec="4 C18", text="Seeded search over calls with the auto-populated field unset/empty/set, as object/dict/flattened kwargs, on sync, asyncio and REST clients, under retry fault scripts and concurrent callers, with uuid4 entropy behind a seeded seam; oracle: RFC-4122 v4 format, freshness across invocations, caller-value preservation on every attempt. The generation-time half is a fixed enumeration run as pre-flight (reported separately, not counted as simulated runs).",
             note="Trusted: the entropy seam (uuid.os.urandom), simulated channels; method-settings validity table is hand-written from the property text.",
             tech="deterministic simulation: seeded entropy seam + retry faults + concurrent callers; static pre-flight enumeration for the generation-time half"),
 "C03": dict(sec="4 C03", text="Wire invariant checked over every attempt/return event of simulated runs: path, arity, payload under the input descriptor, reply equality; the simulation adds retried attempts, concurrent asyncio callers with crossing latencies (cross-talk), stream cuts and several clients per process. Inputs (APIs, valuations) are only sampled. Exploration level.",
             note="Trusted: simulated channels; dynamic-message codec over the input descriptors; conventional grammar.",
             tech="deterministic simulation: concurrent callers/retries/stream cuts on simulated channels, dynamic-descriptor codec as oracle"),
 "C04": dict(sec="4 C04", text="REST requests captured at HTTPAdapter.send are inverted by an independent reverse transcoder (path+query+body -> request) built from the spec's http rule and the input descriptors; the simulation adds HTTP status faults with retried attempts, seeded chunk boundaries for streamed replies and multi-call sequences on one process. The transcoding core is sampled input. Exploration level.",
             note="Trusted: the reverse transcoder; requests' URL handling above the adapter; conventional grammar.",
             tech="deterministic simulation: HTTP status faults, short reads/chunking, call sequences; reverse transcoder as oracle"),
 "C05": dict(sec="4 C05", text="kwargs-call and request-call put equal decoded requests on the wire (sync and asyncio); mixed call raises ValueError with no attempt event between invoke and raise. Thin: no fault or schedule is expected to change the verdict (stated in DESIGN.md). Exploration level.",
             note="Trusted: simulated channels; valuations sampled by the grammar.",
             tech="deterministic simulation: concurrent flattened callers (tasks and threads) with retried faults, history ordering check 'nothing sent before ValueError', sync/asyncio parity"),
 "C06": dict(sec="4 C06", text="x-goog-request-params recorded on every attempt, page fetch and REST request is compared with an independent AIP-4222 evaluator over the spec; the simulation adds the 'every retried attempt / every page / sync-asyncio-REST parity' dimension. Exploration level.",
             note="Trusted: own routing evaluator; simulated channels/adapter; conventional grammar.",
             tech="deterministic simulation: retried attempts and page fetches across three client flavours, independent AIP-4222 evaluator"),
 "C17": dict(sec="4 C17", text="Exposure set (introspection) vs YAML-derived set, then every exposed mixin RPC is called in the simulated world (gRPC path/types/routing header, REST verb/path/body), under two hash seeds. Thin: the simulation adds only asyncio/REST/attempt coverage. Exploration level.",
             note="Trusted: fixed table of the ten mixin RPCs; simulated channels/adapter.",
             tech="deterministic simulation: mixin RPCs called on simulated channels/adapter with injected statuses and shared caller metadata, YAML-derived oracle, two hash seeds"),
}
COMMON = (" As built (DESIGN.md sections 12 and 15) every run may also have: real caller threads sharing a sync/REST client (baton passing at I/O "
          "seams, seeded pre-emption between lines of emitted code, cooperative locks), cancellation of an asyncio caller, request objects edited in "
          "place and re-submitted, several clients per process and earlier runs of the same world, a generator process that served unrelated / "
          "edited / failed generations before, DEBUG logging, and on REST HTML/empty error bodies, lost reply bodies and 401 refresh-and-resend.")
COMMON_C10 = (" As built: documented protos (source_code_info), reuse patterns pairing a request with its own edited or failed twin (incl. a generation "
              "that dies inside API.build), build-worker interpreters generating every request in four orders, vendored cwd, chdir between generations.")


def main():
    checks = []
    for pid in sorted(CLAIMS):
        if pid not in BUILT: continue
        c = CLAIMS[pid]
        checks.append({
            "property_id": pid,
            "quick_cmd": f"/venv/bin/python check.py {pid} --tier quick",
            "thorough_cmd": f"/venv/bin/python check.py {pid} --tier thorough",
            "evidence_file": f"/verif/evidence/{pid}.json",
            "replay_cmd_template": f"/venv/bin/python check.py {pid} --replay {{path}}",
            "engine": "dsim",
            "level_claimed": {"category": "exploration", "text": c["text"] + (COMMON if pid != "C10" else COMMON_C10), "design_ref": c["sec"]},
            "level_note": c["note"],
            "technique": c["tech"],
        })
    na = [{"property_id": k, "reason": v} for k, v in sorted(NA.items())]
    for pid in sorted(CLAIMS):
        if pid not in BUILT:
            na.append({"property_id": pid, "reason": "claimed in DESIGN.md (simulation applies) but its check is not built/registered yet in this commit"})
    m = {
        "version": 1,
        "setup_cmd": "/venv/bin/python check.py SELFTEST",
        "hooks": {"guard": "GAPIC_GENERATOR_PYTHON_VERIF", "enable": "no hooks are needed: every seam used (channel= constructor argument, HTTPAdapter.send, time/random/uuid module attributes, process environment) already exists; the guard name is reserved and unused",
                  "baseline_off_cmd": "cd /repo && /venv/bin/python -m pytest -ra -q -p no:cacheprovider --timeout=900 --continue-on-collection-errors",
                  "source_commits": [], "add_only": True},
        "engines": [{"name": "dsim", "path": "/verif/dsim", "serves_properties": sorted(BUILT),
                     "kind_free_text": "hand-written deterministic simulator: virtual clock + virtual-time asyncio loop, simulated grpc/grpc.aio channels and HTTP adapter, scripted reference server built from input descriptors, seeded spec grammar, fork-per-world runner, ddmin minimiser, replay files"}],
        "checks": checks,
        "not_applicable": sorted(na, key=lambda x: x["property_id"]),
        "notes": "All checks: exit 0 held / 1 + VIOLATION line / 2 harness error. VERIF_SEED selects the seed. See DESIGN.md.",
    }
    json.dump(m, open(os.path.join(HERE, "MANIFEST.json"), "w"), indent=1)
main()
