"""Every recorded finding, replayed: findings/<name>.replay.json must FAIL (exit 1, same rule) on the parent of its
`fix:` commit and PASS (exit 0) on /repo's HEAD; the replay of an OPEN finding must fail on HEAD.  The generator is taken
from scratch worktrees of /repo through PYTHONPATH; /repo itself is not touched.

usage: findings_roundtrip.py [name-substring ...]
"""
import glob
import json
import os
import subprocess
import sys

VERIF = os.path.dirname(os.path.dirname(os.path.abspath(__file__)))


def sh(cmd, **kw):
    return subprocess.run(cmd, shell=True, capture_output=True, text=True, **kw)


def replay(prop, path, pythonpath=None):
    env = dict(os.environ)
    if pythonpath:
        env["PYTHONPATH"] = pythonpath
    p = sh(f"timeout 600 /venv/bin/python check.py {prop} --replay {path}", cwd=VERIF, env=env)
    rule = next((l.strip().split()[0] for l in p.stdout.splitlines() if l.strip().startswith("rule=")), "")
    return p.returncode, rule


def main():
    known = json.load(open(os.path.join(VERIF, "known_findings.json")))["findings"]
    want = sys.argv[1:]
    bad = 0
    for path in sorted(glob.glob(os.path.join(VERIF, "findings", "*.replay.json"))):
        name = os.path.basename(path)
        if want and not any(w in name for w in want):
            continue
        d = json.load(open(path))
        prop, rule = d["property"], d["rule"]
        entries = [k for k in known if (k["rule"] == rule or rule in k.get("also_rules", ())) and k["property"] in (prop, "*")]
        rc_head, rule_head = replay(prop, path)
        fixed = [k for k in entries if k["status"] == "fixed"]
        opened = [k for k in entries if k["status"] == "open"]
        line = f"{name}: HEAD exit={rc_head} {rule_head}"
        results = []
        for k in fixed:
            wt = f"/tmp/wt/fr-{k['commit']}-{os.getpid()}"
            os.makedirs("/tmp/wt", exist_ok=True)
            if sh(f"git -C /repo worktree add -q --detach {wt} {k['commit']}^").returncode:
                results.append((k["commit"], "no-worktree", ""))
                continue
            try:
                rc, r = replay(prop, path, wt)
            finally:
                sh(f"git -C /repo worktree remove --force {wt}")
            results.append((k["commit"], rc, r))
        before = [x for x in results if x[1] == 1 and x[2] == "rule=" + rule]
        if opened and not fixed:
            ok = rc_head == 1
            line += "  (open finding: must fail on HEAD)"
        elif d.get("signature") and any(k["status"] == "open" and k["signature"] == d["signature"] for k in entries):
            ok = rc_head == 1
            line += "  (open finding: must fail on HEAD)"
        else:
            ok = rc_head == 0 and bool(before)
            line += "  before its fix: " + (", ".join(f"{c}^ exit={rc} {r}" for c, rc, r in results) or "no fixed entry with this rule")
        print(("ok   " if ok else "BAD  ") + line, flush=True)
        bad += not ok
    print(f"{bad} bad")
    return 1 if bad else 0


sys.exit(main())
