#!/bin/bash
# usage: validate_seeded.sh <name> <patch> <demo>  -- confirms a seeded change in a scratch worktree
set -u
name=$1; patch=$2; demo=$3
wt=/tmp/wt/val-$name
git -C /repo worktree add -q --detach $wt ${BASE:-HEAD} || exit 9
cd $wt
timeout 600 /venv/bin/python $demo >/tmp/wt/val-$name.clean.log 2>&1; c=$?
git apply $patch || { echo "$name: patch does not apply"; cd /; git -C /repo worktree remove --force $wt; exit 9; }
timeout 600 /venv/bin/python $demo >/tmp/wt/val-$name.mut.log 2>&1; m=$?
t=$(timeout 900 /venv/bin/python -m pytest -q -p no:cacheprovider --timeout=900 --continue-on-collection-errors 2>&1 | tail -1)
cd /
git -C /repo worktree remove --force $wt
echo "$name: demo_clean_exit=$c demo_mutant_exit=$m tests='$t'"
