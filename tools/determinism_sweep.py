"""One-off large determinism proof: for every simulated property, N world seeds are run twice in FRESH interpreters - once
with 16 workers under PYTHONHASHSEED=0, once with 5 workers under PYTHONHASHSEED=7 - and the per-world digests (sha256 over
every event of every run of the world) are compared.  usage: determinism_sweep.py [N=120] [props...]"""
import json, os, subprocess, sys
VERIF = os.path.dirname(os.path.dirname(os.path.abspath(__file__)))
sys.path.insert(0, VERIF)
from dsim import rng as R, driver
n = int(sys.argv[1]) if len(sys.argv) > 1 else 120
props = sys.argv[2:] or ["C03", "C04", "C05", "C06", "C07", "C08", "C09", "C17", "C18"]
base = int(os.environ.get("VERIF_SEED", "20261002"))
bad = 0
for p in props:
    mod = driver.load(p)
    runs = mod.BUDGET["quick"]["runs"]
    seeds = [str(R.derive(base + 7, "world", i)) for i in range(n)]
    out = []
    for workers, hs in (("16", "0"), ("5", "7")):
        env = dict(os.environ, VERIF_WORKERS=workers, PYTHONHASHSEED=hs)
        r = subprocess.run([sys.executable, os.path.join(VERIF, "check.py"), p, "--digests", ",".join(seeds), "--runs", str(runs), "--tier", "quick"],
                           capture_output=True, text=True, env=env, cwd=VERIF, timeout=3600)
        line = next((l for l in r.stdout.splitlines() if l.startswith("DIGESTS ")), None)
        out.append(json.loads(line[8:]) if line else {"error": r.stderr[-300:]})
    diff = [s for s in seeds if out[0].get(s) != out[1].get(s)]
    errs = [s for s in seeds if not str(out[0].get(s, "")).isalnum() or len(str(out[0].get(s, ""))) != 64]
    bad += len(diff)
    print(f"{p}: {n} worlds x {runs} runs, twice: {len(diff)} digest mismatches, {len(errs)} worlds without a digest", flush=True)
sys.exit(1 if bad else 0)
