"""For each (seeded change, check): apply the change in a scratch worktree of /repo, run the check there, replay the
reported file twice with the change (must reproduce, exit 1, and print the SAME violation line both times), then replay it
against the unchanged /repo (must pass, exit 0).  usage: replay_roundtrip.py c09k:C09 c07m:C07 ..."""
import json, os, re, subprocess, sys
VERIF = os.path.dirname(os.path.dirname(os.path.abspath(__file__)))
def sh(cmd, **kw): return subprocess.run(cmd, shell=True, capture_output=True, text=True, **kw)
pairs = [a.split(":") for a in sys.argv[1:]]
for sid, chk in pairs:
    patch = os.path.join(VERIF, "seeded", sid, "patch.diff")
    wt = f"/tmp/wt/rr-{sid}-{os.getpid()}"
    os.makedirs("/tmp/wt", exist_ok=True)
    sh(f"git -C /repo worktree add -q --detach {wt} HEAD")
    try:
        if sh(f"git -C {wt} apply {patch}").returncode:
            print(f"{sid}/{chk}: patch does not apply"); continue
        env = dict(os.environ, PYTHONPATH=wt)
        p = sh(f"/venv/bin/python check.py {chk} --tier quick --no-selftest --no-evidence", cwd=VERIF, env=env)
        m = re.search(r"VIOLATION property=\S+ replay=(\S+)", p.stdout)
        if not m:
            print(f"{sid}/{chk}: no violation reported"); continue
        rp = m.group(1)
        r1 = sh(f"/venv/bin/python check.py {chk} --replay {rp}", cwd=VERIF, env=env)
        r1b = sh(f"/venv/bin/python check.py {chk} --replay {rp}", cwd=VERIF, env=env)
    finally:
        sh(f"git -C /repo worktree remove --force {wt}")
    r2 = sh(f"/venv/bin/python check.py {chk} --replay {rp}", cwd=VERIF)
    d = json.load(open(rp))
    info = d.get("minimisation") or {}
    nops = sum(len(a["ops"]) for a in (d.get("scenario") or {}).get("actors", []))
    how = "world" if d.get("world_replay") else f"prefix({len(d['prefix_scenarios'])})" if d.get("prefix_scenarios") else "scenario"
    print(f"{sid}/{chk}: replay with the change exit={r1.returncode},{r1b.returncode} (want 1,1) same_output={r1.stdout == r1b.stdout}; "
          f"on the unchanged tree exit={r2.returncode} (want 0); replays={how} ops={nops} minimised={info.get('minimised')} tests={info.get('tests')}", flush=True)
