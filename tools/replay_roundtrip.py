"""For each (mutant, check): apply, run the check, replay the reported file (must reproduce, exit 1),
revert, replay again (must pass, exit 0)."""
import json, os, re, subprocess, sys
VERIF = os.path.dirname(os.path.dirname(os.path.abspath(__file__)))
def sh(cmd, **kw): return subprocess.run(cmd, shell=True, capture_output=True, text=True, **kw)
pairs = [a.split(":") for a in sys.argv[1:]]
assert sh("git -C /repo status --porcelain").stdout.strip() == ""
for sid, chk in pairs:
    patch = os.path.join(VERIF, "seeded", sid, "patch.diff")
    if sh(f"git -C /repo apply {patch}").returncode: sh(f"git -C /repo apply -3 {patch}")
    try:
        p = sh(f"/venv/bin/python check.py {chk} --tier quick --no-selftest --no-evidence", cwd=VERIF)
        m = re.search(r"VIOLATION property=\S+ replay=(\S+)", p.stdout)
        if not m:
            print(f"{sid}/{chk}: no violation reported"); continue
        rp = m.group(1)
        r1 = sh(f"/venv/bin/python check.py {chk} --replay {rp}", cwd=VERIF)
    finally:
        sh("git -C /repo checkout -- ."); sh("git -C /repo clean -fdq gapic")
    r2 = sh(f"/venv/bin/python check.py {chk} --replay {rp}", cwd=VERIF)
    info = json.load(open(rp)).get("minimisation") or {}
    print(f"{sid}/{chk}: replay with mutant exit={r1.returncode} (want 1); replay on clean tree exit={r2.returncode} (want 0); minimised={info.get('minimised')} tests={info.get('tests')}", flush=True)
