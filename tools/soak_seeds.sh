#!/bin/bash
# usage: soak_seeds.sh <first-seed> <last-seed> [checks...]  -- quick tier under many seeds; prints every non-OK outcome
first=$1; last=$2; shift 2
checks=${@:-C03 C04 C05 C06 C07 C08 C09 C10 C17 C18}
for seed in $(seq $first $last); do
  for c in $checks; do
    out=$(VERIF_SEED=$seed timeout 1200 /venv/bin/python check.py $c --tier quick --no-evidence 2>&1); rc=$?
    if [ $rc -ne 0 ]; then echo "SEED $seed $c rc=$rc"; echo "$out" | grep -v "^    " | cut -c1-700 | tail -8; else echo "seed $seed $c ok"; fi
  done
done
