"""Soak the spec grammar on the current tree: every generated spec must lower, load into a
descriptor pool, generate and import.  Usage: soak_grammar.py [n] [seed] [profile-module:attr]"""
import sys, os, time, importlib
sys.path.insert(0, os.path.dirname(os.path.dirname(os.path.abspath(__file__))))
from dsim import rng as R, grammar, runner, world, protos

def job(j):
    seed, prof = j
    spec = grammar.gen_api(R.stream(seed, "spec"), prof)
    files, gen = protos.lower(spec)
    protos.build_pool(files)
    w = world.World(spec)
    try:
        n = sum(len(s["methods"]) for fs in spec["files"] for s in fs.get("services", ()))
        return {"methods": n, "transport": spec["options"]["transport"]}
    finally:
        w.close()

if __name__ == "__main__":
    n = int(sys.argv[1]) if len(sys.argv) > 1 else 100
    seed = int(sys.argv[2]) if len(sys.argv) > 2 else 1
    prof = grammar.DEFAULT_PROFILE
    if len(sys.argv) > 3:
        mod, attr = sys.argv[3].split(":")
        prof = getattr(importlib.import_module(mod), attr)
    from dsim import specs
    world.generate(specs.widget_spec(), "/dev/shm")  # warm templates in the parent
    t = time.perf_counter()
    res = runner.run_jobs([(R.derive(seed, "soak", i), prof) for i in range(n)], job, wall=60)
    bad = 0
    for (j, st, pay) in res:
        if st != "ok":
            bad += 1
            print("FAIL seed", j[0], st, str(pay)[-1500:])
            if bad > 5: break
    print(f"{n} specs, {bad} bad, {time.perf_counter()-t:.1f}s")
